package c11

// Crafted index lists: proofs whose Idxs are NOT a set of nodes of the tree — duplicated, permuted,
// out-of-range, ancestor-overlapping (including the pass-through positions of a lone right-edge leaf),
// zero, of another length than the query hashes — for VerifyProof (`vcraft`), for the root computed
// from update data (`ucraft`) and for Update on the tree (`updidx`).
//
// Oracles (model-free; everything is computed from the runner's own leaf list with ref.go):
//   c11-proof-accepts-false-claim   VerifyProof true, but some (index, hash) pair does not name the hash
//                                   of the node at that index
//   c11-proof-accepts-length-mismatch
//   c11-update-phantom-leaf         Update / CalculateRootFromUpdateData accept a leaf-layer index at or
//                                   beyond the size (or the resulting root is not the root of the list
//                                   with exactly the named leaves replaced)
//   c11-update-duplicate-index      they accept an index named twice with different data

import (
	"bytes"
	"fmt"
	"math/bits"
	"math/rand"
	"strconv"
	"strings"

	"github.com/LiskHQ/lisk-engine/pkg/trie/rmt"

	"verifharness/corr"
)

// refHeight: number of layers of the tree of n >= 1 leaves (ceil(log2 n) + 1), exact integers.
func refHeight(n int) int {
	h := 0
	for 1<<h < n {
		h++
	}
	return h + 1
}

// idxRange: the leaves [lo,hi) below the position an index names in a tree of n leaves
// (index = 1 followed by the node index written with height-layer binary digits). ok = false: the
// position has no leaf below it (or the index is no position at all).
func idxRange(idx uint64, n int) (lo, hi int, ok bool) {
	if idx < 2 || n == 0 {
		return 0, 0, false
	}
	height := refHeight(n)
	b := bits.Len64(idx) - 1
	if b > height {
		return 0, 0, false
	}
	layer := uint(height - b)
	node := idx - uint64(1)<<uint(b)
	if node > uint64(n)>>layer {
		return 0, 0, false
	}
	lo = int(node << layer)
	if lo >= n {
		return 0, 0, false
	}
	hi = lo + 1<<layer
	if hi > n {
		hi = n
	}
	return lo, hi, true
}

// leafPos: the leaf position a leaf-layer index names (ok = false: not an index of the leaf layer).
func leafPos(idx uint64, n int) (pos uint64, ok bool) {
	if n == 0 {
		return 0, false
	}
	h := uint(refHeight(n))
	if bits.Len64(idx) != int(h)+1 {
		return 0, false
	}
	return idx - uint64(1)<<h, true
}

func parseUints(s string) []uint64 {
	if s == "-" {
		return []uint64{}
	}
	parts := strings.Split(s, ",")
	res := make([]uint64, len(parts))
	for i, p := range parts {
		v, err := strconv.ParseUint(p, 10, 64)
		if err != nil {
			panic(err)
		}
		res[i] = v
	}
	return res
}

// crafted executes vcraft / ucraft / updidx.
func (r *runner) crafted(w []string) string {
	n := len(r.hashes)
	switch w[0] {
	case "vcraft":
		if r.lastP == nil {
			return "noproof"
		}
		idxs, q := parseUints(w[1]), unHexList(w[2])
		p := &rmt.Proof{Size: r.lastP.Size, Idxs: idxs, SiblingHashes: copyList(r.lastP.SiblingHashes)}
		got := r.pureVerifyProof("vcraft", copyList(q), p, r.tr.Root())
		if got && int(p.Size) == n {
			if len(idxs) != len(q) {
				r.fail("c11-proof-accepts-length-mismatch", fmt.Sprintf("size %d idxs %s with %d query hashes", n, uintList(idxs), len(q)))
				return "true"
			}
			for i, idx := range idxs {
				if idx == 0 {
					continue
				}
				lo, hi, ok := idxRange(idx, n)
				if !ok || !bytes.Equal(refRoot(r.hashes[lo:hi]), q[i]) {
					r.fail("c11-proof-accepts-false-claim", fmt.Sprintf("size %d idxs %s: accepted, but the hash given for index %d (pair %d) is not the hash of that node", n, uintList(idxs), idx, i))
					break
				}
			}
		}
		return strconv.FormatBool(got)
	case "ucraft":
		if r.lastP == nil {
			return "noproof"
		}
		idxs, upd := parseUints(w[1]), unHexList(w[2])
		p := &rmt.Proof{Size: r.lastP.Size, Idxs: idxs, SiblingHashes: copyList(r.lastP.SiblingHashes)}
		got, err := r.pureUpdateData("ucraft", copyList(upd), p)
		if err != nil {
			return "err"
		}
		if int(p.Size) == n && len(idxs) == len(upd) {
			hs := copyList(r.hashes)
			cur := make([][]byte, len(idxs))
			written := map[uint64][]byte{}
			plain := true // distinct leaves of the tree only
			for i, idx := range idxs {
				pos, leaf := leafPos(idx, n)
				if !leaf {
					plain = false
					continue
				}
				if pos >= uint64(n) {
					r.fail("c11-update-phantom-leaf", fmt.Sprintf("CalculateRootFromUpdateData: size %d idxs %s: index %d is leaf position %d, accepted", n, uintList(idxs), idx, pos))
					return corr.Hex(got)
				}
				if prev, dup := written[idx]; dup {
					plain = false
					if !bytes.Equal(prev, upd[i]) {
						r.fail("c11-update-duplicate-index", fmt.Sprintf("CalculateRootFromUpdateData: size %d idxs %s: index %d named twice with different data, accepted", n, uintList(idxs), idx))
						return corr.Hex(got)
					}
				}
				written[idx] = upd[i]
				cur[i] = r.hashes[pos]
				hs[pos] = refLeaf(upd[i])
			}
			// if the crafted proof is a proof of the current leaves at these positions, the result must
			// be the root of the list with exactly these leaves replaced
			if plain && rmt.VerifyProof(cur, p, r.tr.Root()) {
				if want := refRoot(hs); !bytes.Equal(want, got) {
					r.fail("c11-update-phantom-leaf", fmt.Sprintf("CalculateRootFromUpdateData: size %d idxs %s: got %x, root of the modified list %x", n, uintList(idxs), got, want))
				}
			}
		}
		return corr.Hex(got)
	case "updidx":
		idxs, upd := parseUints(w[1]), unHexList(w[2])
		valid := n > 0 && len(idxs) > 0 && len(idxs) == len(upd)
		phantom, dupIdx := false, false
		seen := map[uint64]int{}
		for i, idx := range idxs {
			pos, leaf := leafPos(idx, n)
			if !leaf {
				valid = false
				continue
			}
			if pos >= uint64(n) {
				valid, phantom = false, true
			}
			if j, dup := seen[idx]; dup {
				valid = false
				if i < len(upd) && !bytes.Equal(upd[j], upd[i]) {
					dupIdx = true
				}
			}
			seen[idx] = i
		}
		before := r.tr.Root()
		err := r.tr.Update(idxs, copyList(upd))
		if err != nil {
			if valid {
				r.fail("update-error", fmt.Sprintf("size %d idxs %s: %v", n, uintList(idxs), err))
			}
			if !bytes.Equal(before, r.tr.Root()) || int(r.tr.Size()) != n {
				r.fail("update-error-changed-tree", fmt.Sprintf("size %d idxs %s: %v, but the root / size changed", n, uintList(idxs), err))
			}
			return "err"
		}
		if phantom {
			r.fail("c11-update-phantom-leaf", fmt.Sprintf("Update: size %d idxs %s accepted; size now %d", n, uintList(idxs), r.tr.Size()))
		} else if dupIdx {
			r.fail("c11-update-duplicate-index", fmt.Sprintf("Update: size %d idxs %s accepted", n, uintList(idxs)))
		} else if !valid {
			r.fail("update-accepted-invalid", fmt.Sprintf("size %d idxs %s data %d", n, uintList(idxs), len(upd)))
		}
		// the root must be that of the list with exactly the named leaves of the tree replaced
		if len(idxs) == len(upd) {
			for i, idx := range idxs {
				if pos, leaf := leafPos(idx, n); leaf && pos < uint64(n) {
					r.data[pos] = upd[i]
					r.hashes[pos] = refLeaf(upd[i])
				}
			}
			r.cache.invalidate()
		}
		if want := r.refRoot(); !bytes.Equal(want, r.tr.Root()) || int(r.tr.Size()) != n {
			sig := "update-root-wrong"
			if phantom {
				sig = "c11-update-phantom-leaf"
			}
			r.fail(sig, fmt.Sprintf("Update: size %d idxs %s: root %x size %d, root of the list with the named leaves replaced %x", n, uintList(idxs), r.tr.Root(), r.tr.Size(), want))
		} else if want := r.cache.peaks(r.hashes); !eqList(want, r.tr.AppendPath()) {
			r.fail("update-append-path-stale", fmt.Sprintf("size %d idxs %s", n, uintList(idxs)))
		}
		return "ok " + r.triple()
	}
	return "bad-op"
}

// ---------------------------------------------------------------------------------------------
// generator

type cpair struct {
	idx uint64
	h   []byte
}

func fakeHash(k int) []byte { return refLeaf([]byte(fmt.Sprintf("fake-%d", k))) }

func (s *sim) emitCraft(pairs []cpair, extraIdx []uint64, extraQ [][]byte) {
	idxs := make([]uint64, 0, len(pairs)+len(extraIdx))
	q := make([][]byte, 0, len(pairs)+len(extraQ))
	for _, p := range pairs {
		idxs = append(idxs, p.idx)
		q = append(q, p.h)
	}
	idxs = append(idxs, extraIdx...)
	q = append(q, extraQ...)
	s.add(fmt.Sprintf("vcraft %s %s", uintList(idxs), hexList(q)))
	if s.rng.Intn(3) == 0 {
		upd := make([][]byte, len(q))
		for i := range upd {
			upd[i] = []byte{0xd0, byte(s.rng.Intn(256)), byte(i)}
		}
		s.add(fmt.Sprintf("ucraft %s %s", uintList(idxs), hexList(upd)))
	}
}

// craftRound: one generated proof for a set of leaves followed by crafted variants of it.
func (s *sim) craftRound() {
	rng := s.rng
	n := len(s.data)
	if n == 0 {
		s.add("provepos 0")
		s.add("vcraft 2 " + corr.Hex(fakeHash(0)))
		s.add("updidx 2 aa")
		s.add("updidx - -")
		return
	}
	h := uint(refHeight(n))
	leafIdx := func(p int) uint64 { return uint64(1)<<h + uint64(p) }
	hashes := make([][]byte, n)
	for i, d := range s.data {
		hashes[i] = refLeaf(d)
	}
	nodeHash := func(idx uint64) []byte {
		lo, hi, ok := idxRange(idx, n)
		if !ok {
			return fakeHash(int(idx % 1000))
		}
		return refRoot(hashes[lo:hi])
	}
	prove := func(pos []int) []cpair {
		s.add("provepos " + posList(pos))
		s.add("verify ok")
		pairs := make([]cpair, len(pos))
		for i, p := range pos {
			pairs[i] = cpair{leafIdx(p), hashes[p]}
		}
		return pairs
	}
	clone := func(l []cpair) []cpair { return append([]cpair{}, l...) }
	insert := func(l []cpair, at int, p cpair) []cpair {
		res := append([]cpair{}, l[:at]...)
		res = append(res, p)
		return append(res, l[at:]...)
	}
	// distinct positions inside the tree
	var pos []int
	seen := map[int]bool{}
	for _, p := range subset(rng, n) {
		if !seen[p] && len(pos) < 8 {
			seen[p] = true
			pos = append(pos, p)
		}
	}
	base := prove(pos)
	for v := 2 + rng.Intn(4); v > 0; v-- {
		k := rng.Intn(len(base))
		switch rng.Intn(14) {
		case 0: // the same index twice, the false hash first (last one wins)
			s.emitCraft(insert(base, k, cpair{base[k].idx, fakeHash(k)}), nil, nil)
		case 1: // the false hash last
			s.emitCraft(insert(base, k+1, cpair{base[k].idx, fakeHash(k)}), nil, nil)
		case 2: // honest duplicate
			s.emitCraft(append(clone(base), base[k]), nil, nil)
		case 3: // consistent permutation: accepted
			l := clone(base)
			rng.Shuffle(len(l), func(i, j int) { l[i], l[j] = l[j], l[i] })
			s.emitCraft(l, nil, nil)
		case 4: // indexes rotated against the hashes
			l := clone(base)
			for i := range l {
				l[i].h = base[(i+1)%len(base)].h
			}
			s.emitCraft(l, nil, nil)
		case 5: // a leaf-layer position at or beyond the size, added
			d := []int{0, 1, 2, int(uint(1)<<h) - n - 1}[rng.Intn(4)]
			if d < 0 {
				d = 0
			}
			s.emitCraft(append(clone(base), cpair{leafIdx(n + d), fakeHash(d)}), nil, nil)
		case 6: // ... replacing a pair's index
			l := clone(base)
			l[k].idx = leafIdx(n + rng.Intn(3))
			s.emitCraft(l, nil, nil)
		case 7: // values that are no positions at all
			vals := []uint64{1, 3, uint64(1) << (h + 1), uint64(1)<<(h+1) + uint64(pos[k]), 1 << 31, 1<<32 + 1, 1 << 62, 1 << 63, ^uint64(0)}
			s.emitCraft(append(clone(base), cpair{vals[rng.Intn(len(vals))], fakeHash(7)}), nil, nil)
		case 8: // an ancestor with its real hash
			j := 1 + uint(rng.Intn(int(h)))
			s.emitCraft(append(clone(base), cpair{base[k].idx >> j, nodeHash(base[k].idx >> j)}), nil, nil)
		case 9: // a false leaf hash under an ancestor that carries the real hash
			j := 1 + uint(rng.Intn(int(h)))
			l := clone(base)
			l[k].h = fakeHash(k)
			s.emitCraft(append(l, cpair{base[k].idx >> j, nodeHash(base[k].idx >> j)}), nil, nil)
		case 10: // a false hash at an ancestor
			j := 1 + uint(rng.Intn(int(h)))
			s.emitCraft(insert(base, rng.Intn(len(base)+1), cpair{base[k].idx >> j, fakeHash(int(j))}), nil, nil)
		case 11: // lengths differ
			if rng.Intn(2) == 0 {
				s.emitCraft(base, []uint64{base[k].idx}, nil)
			} else {
				s.emitCraft(base, nil, [][]byte{fakeHash(11)})
			}
		case 12: // zero indexes
			l := clone(base)
			if rng.Intn(2) == 0 {
				l = append(l, cpair{0, fakeHash(12)})
			} else {
				l[k] = cpair{0, fakeHash(12)}
			}
			s.emitCraft(l, nil, nil)
		case 13: // only an ancestor (an inner node, or a pass-through position of the lone last leaf)
			j := 1 + uint(rng.Intn(int(h)))
			s.emitCraft([]cpair{{base[k].idx >> j, nodeHash(base[k].idx >> j)}}, nil, nil)
		}
	}
	// the configurations in which the repeated index needs no sibling hash of its own
	if rng.Intn(2) == 0 {
		p := rng.Intn(n)
		if p^1 < n { // its sibling is queried as well
			b := prove([]int{p, p ^ 1})
			s.emitCraft([]cpair{{b[0].idx, fakeHash(p)}, b[0], b[1]}, nil, nil)
			s.emitCraft([]cpair{b[0], {b[0].idx, fakeHash(p)}, b[1]}, nil, nil)
		}
	}
	if rng.Intn(2) == 0 { // the last leaf and the positions it passes through on its way up
		b := prove([]int{n - 1})
		s.emitCraft([]cpair{{b[0].idx, fakeHash(n)}, b[0]}, nil, nil)
		for j := uint(1); j < h; j++ {
			if lo, hi, ok := idxRange(b[0].idx>>j, n); !ok || lo != n-1 || hi != n {
				break
			}
			s.emitCraft([]cpair{{b[0].idx, fakeHash(n)}, {b[0].idx >> j, b[0].h}}, nil, nil)
			s.emitCraft([]cpair{{b[0].idx >> j, b[0].h}}, nil, nil)
		}
	}
	// Update on the tree with raw indexes
	for v := 1 + rng.Intn(3); v > 0; v-- {
		s.uniq++
		fresh := func(i int) []byte { return []byte{0xc7, byte(s.uniq >> 8), byte(s.uniq), byte(i)} }
		p := rng.Intn(n)
		p2 := rng.Intn(n)
		switch rng.Intn(9) {
		case 0, 1: // valid
			idxs := []uint64{leafIdx(p)}
			upd := [][]byte{fresh(0)}
			if p2 != p {
				idxs = append(idxs, leafIdx(p2))
				upd = append(upd, fresh(1))
			}
			s.add(fmt.Sprintf("updidx %s %s", uintList(idxs), dataList(upd)))
			for i, idx := range idxs {
				s.old = append(s.old, s.data[idx-leafIdx(0)])
				s.data[idx-leafIdx(0)] = upd[i]
			}
		case 2: // the same leaf twice
			s.add(fmt.Sprintf("updidx %s %s", uintList([]uint64{leafIdx(p), leafIdx(p)}), dataList([][]byte{fresh(0), fresh(1)})))
		case 3: // the first position beyond the size (and the last one of the layer)
			d := []int{0, 1, int(uint(1)<<h) - n - 1}[rng.Intn(3)]
			if d < 0 {
				d = 0
			}
			s.add(fmt.Sprintf("updidx %s %s", uintList([]uint64{leafIdx(n + d)}), dataList([][]byte{fresh(0)})))
		case 4: // a leaf of the tree together with a position beyond the size
			s.add(fmt.Sprintf("updidx %s %s", uintList([]uint64{leafIdx(p), leafIdx(n)}), dataList([][]byte{fresh(0), fresh(1)})))
		case 5: // not the leaf layer
			vals := []uint64{0, 1, 2, leafIdx(p) >> 1, leafIdx(p) << 1, 1 << 63}
			s.add(fmt.Sprintf("updidx %s %s", uintList([]uint64{vals[rng.Intn(len(vals))]}), dataList([][]byte{fresh(0)})))
		case 6: // lengths differ
			s.add(fmt.Sprintf("updidx %s %s", uintList([]uint64{leafIdx(p)}), dataList([][]byte{fresh(0), fresh(1)})))
		case 7:
			s.add("updidx - -")
		case 8: // the same leaf twice with the same data
			s.add(fmt.Sprintf("updidx %s %s", uintList([]uint64{leafIdx(p), leafIdx(p)}), dataList([][]byte{fresh(0), fresh(0)})))
		}
	}
}

// craftedCases: trees of every small size, sizes around powers of two and some larger ones.
func craftedCases(rng *rand.Rand, tier string) []corr.Case {
	sizes := []int{}
	small, rounds, extra := 24, 3, 10
	if tier == "thorough" {
		small, rounds, extra = 70, 6, 60
	}
	for n := 0; n <= small; n++ {
		sizes = append(sizes, n)
	}
	pows := sizesAroundPowers(9)
	for i := 0; i < extra; i++ {
		if i%2 == 0 {
			sizes = append(sizes, pows[rng.Intn(len(pows))])
		} else {
			sizes = append(sizes, 1+rng.Intn(400))
		}
	}
	var cases []corr.Case
	for _, n := range sizes {
		reset := "reset"
		if n <= 40 {
			reset = "reset full"
		}
		s := newSim(rng, 0, reset)
		s.appendN(n, []byte{byte(rng.Intn(256)), 0x5c}, 0)
		for k := 0; k < rounds; k++ {
			s.craftRound()
			if rng.Intn(3) == 0 {
				s.appendOne()
			}
		}
		s.add("batchroot")
		if len(s.data) <= 600 {
			s.add("nodes")
		}
		s.add("reload")
		cases = append(cases, corr.Case{Ops: s.ops, Tag: "crafted-indexes"})
	}
	return cases
}
