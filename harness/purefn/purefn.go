// Package purefn is the model-free pseudo-property "C10PURE": verification entry points outside the trie packages
// must not modify the values they are given and must answer the same on the same values (class "functions that
// must not mutate their inputs", opened by seeded change C10-11; smt.Verify itself is covered in harness/c10, the
// rmt entry points in harness/c11).  Every call goes through corr.PureCall with arguments that carry spare
// capacity filled with a sentinel (a caller passing sub-slices of a buffer):
//
//	bls <n> <seed> <mask> <tamper>   n BLS key pairs derived from seed, the signers given by the bits of mask:
//	                                 crypto.BLSVerify, BLSPopVerify, BLSVerifyAggSig, BLSVerifyWeightedAggSig,
//	                                 certificate.Certificate.Verify / VerifyAggregateCertificateSignature
//	ed <seed> <tamper>               crypto.VerifySignature, blockchain.ValidateBlockSignature,
//	                                 BlockHeader.VerifySignature
//	decode <struct> <0|1> <hex>      Decode / DecodeStrict of a generated codec struct on a buffer: the buffer is
//	                                 unchanged, a second decode of the same buffer gives the same object, and the
//	                                 decoded object does not alias the buffer (overwriting the buffer afterwards
//	                                 leaves its encoding unchanged)
//
// Signatures: c10pure-<fn>-mutates-argument, -writes-beyond-argument, -not-idempotent, -copy-differs:<variant>,
// c10pure-decode-aliases-input.
package purefn

import (
	"crypto/sha256"
	"fmt"
	"math/rand"
	"sort"
	"strconv"
	"strings"

	"github.com/LiskHQ/lisk-engine/pkg/blockchain"
	"github.com/LiskHQ/lisk-engine/pkg/codec"
	"github.com/LiskHQ/lisk-engine/pkg/consensus/certificate"
	"github.com/LiskHQ/lisk-engine/pkg/crypto"

	"verifharness/c08"
	"verifharness/corr"
)

type prop struct{}

func init() { corr.Register(prop{}) }

func (prop) ID() string    { return "C10PURE" }
func (prop) NoModel() bool { return true }
func (prop) Parallel() int { return 8 }

func sha(parts ...[]byte) []byte {
	h := sha256.New()
	for _, p := range parts {
		h.Write(p)
	}
	return h.Sum(nil)
}

var tampers = []string{"none", "none", "sig", "msg", "bits", "key", "weights"}

// loadSchemas: the schema table written by tools/schemagen (absent on a tree where that generator has not run yet:
// the decode cases then use the encodings of the zero objects of the registered structs).
func loadSchemas() (ok bool) {
	defer func() {
		if e := recover(); e != nil {
			ok = false
		}
	}()
	c08.LoadSchemas()
	return len(c08.Schemas) > 0
}

func (prop) Generate(rng *rand.Rand, tier string) []corr.Case {
	haveSchemas := loadSchemas()
	nBLS, nEd, nDec := 10, 12, 3
	if tier == "thorough" {
		nBLS, nEd, nDec = 120, 150, 30
	}
	cases := []corr.Case{}
	seed := func() string {
		b := make([]byte, 8)
		rng.Read(b)
		return corr.Hex(b)
	}
	for i := 0; i < nBLS; i++ {
		n := 1 + rng.Intn(9)
		if i%5 == 4 {
			n = 8 + rng.Intn(10) // bitmaps of two and three bytes
		}
		ops := []string{"reset"}
		for j := 0; j < 2; j++ {
			mask := rng.Int63n(1<<uint(n)-1) + 1
			if rng.Intn(4) == 0 {
				mask = 1<<uint(n) - 1
			}
			ops = append(ops, fmt.Sprintf("bls %d %s %d %s", n, seed(), mask, tampers[rng.Intn(len(tampers))]))
		}
		cases = append(cases, corr.Case{Ops: ops, Tag: "bls"})
	}
	for i := 0; i < nEd; i++ {
		cases = append(cases, corr.Case{Ops: []string{"reset", fmt.Sprintf("ed %s %s", seed(), tampers[rng.Intn(4)])}, Tag: "ed"})
	}
	names := []string{}
	for name := range codec.VerifRegistry {
		if _, ok := c08.ByName[name]; ok || !haveSchemas {
			names = append(names, name)
		}
	}
	sort.Strings(names)
	for _, name := range names {
		ops := []string{"reset"}
		for j := 0; j < nDec; j++ {
			var b []byte
			if haveSchemas {
				b = c08.GenEncoding(rng, c08.ByName[name], 3, j%2 == 0)
			} else {
				b = codec.VerifRegistry[name]().Encode()
			}
			if j%3 == 2 {
				b, _ = c08.Mutate(rng, b)
			}
			if len(b) > 4000 {
				continue
			}
			ops = append(ops, fmt.Sprintf("decode %s %d %s", name, rng.Intn(2), corr.Hex(b)))
		}
		cases = append(cases, corr.Case{Ops: ops, Tag: "decode"})
	}
	return cases
}

type runner struct {
	fails []corr.Fail
	opIdx int
}

func (r *runner) pure(p corr.Pure) string {
	first := ""
	func() {
		defer func() {
			if e := recover(); e != nil {
				first = "panic" // panics on malformed input belong to the properties of the function itself
			}
		}()
		res, fails := corr.PureCall(p)
		first = res
	next:
		for _, f := range fails {
			for _, g := range r.fails {
				if g.Sig == f.Sig {
					continue next
				}
			}
			f.Op = r.opIdx
			if len(f.Detail) > 900 {
				f.Detail = f.Detail[:900] + "..."
			}
			r.fails = append(r.fails, f)
		}
	}()
	return first
}

// arg is one named argument of a call.
type arg struct {
	name string
	b    []byte   // a byte string, or
	l    [][]byte // a list of byte strings, or
	u    []uint64 // a list of integers
}

func image(args []arg) []string {
	var img []string
	for _, a := range args {
		switch {
		case a.l != nil:
			img = corr.SnapListCap(img, a.name, a.l)
		case a.u != nil:
			img = corr.SnapUints(img, a.name, a.u)
		default:
			img = corr.SnapBytesCap(img, a.name, a.b)
		}
	}
	return img
}

func cloneArgs(args []arg) []arg {
	res := make([]arg, len(args))
	for i, a := range args {
		res[i] = arg{name: a.name}
		switch {
		case a.l != nil:
			res[i].l = make([][]byte, len(a.l))
			for j, b := range a.l {
				res[i].l[j] = append([]byte{}, b...)
			}
		case a.u != nil:
			res[i].u = append([]uint64{}, a.u...)
		default:
			res[i].b = append([]byte{}, a.b...)
		}
	}
	return res
}

// check runs one function through the oracle: f receives the argument objects.
func (r *runner) check(fn, ctx string, args []arg, f func(a []arg) string) string {
	return r.pure(corr.Pure{
		Sig: "c10pure-" + strings.ToLower(strings.NewReplacer(".", "-", "(", "", ")", "").Replace(fn)), Name: fn, Context: ctx,
		Snap: func() []string { return image(args) },
		Call: func() string { return f(args) },
		Variants: func(stage string) []corr.PureVariant {
			c := cloneArgs(args)
			return []corr.PureVariant{{Name: "deep-clone", Call: func() string { return f(c) }}}
		},
	})
}

func flip(b []byte) []byte {
	res := append([]byte{}, b...)
	if len(res) > 0 {
		res[len(res)/2] ^= 0x10
	}
	return res
}

func (r *runner) bls(w []string, op string) string {
	n, _ := strconv.Atoi(w[1])
	seed := corr.UnHex(w[2])
	mask, _ := strconv.ParseUint(w[3], 10, 64)
	tamper := w[4]
	keys := make([][]byte, n)
	sks := make([][]byte, n)
	weights := make([]uint64, n)
	for i := 0; i < n; i++ {
		kp := crypto.BLSKeyGen(sha(seed, []byte{byte(i)}))
		keys[i], sks[i] = kp.PublicKey, kp.PrivateKey
		weights[i] = uint64(1 + int(sha(seed, []byte{byte(i), 'w'})[0])%7)
	}
	// keys must be in the lexicographic order the engine keeps them in
	order := make([]int, n)
	for i := range order {
		order[i] = i
	}
	sort.Slice(order, func(a, b int) bool { return string(keys[order[a]]) < string(keys[order[b]]) })
	k2, s2 := make([][]byte, n), make([][]byte, n)
	for i, o := range order {
		k2[i], s2[i] = keys[o], sks[o]
	}
	keys, sks = k2, s2
	chainID := sha(seed, []byte("chain"))[:4]
	cert := &certificate.Certificate{BlockID: sha(seed, []byte("id")), Height: uint32(seed[0]) + 1, Timestamp: 1000 + uint32(seed[1]),
		StateRoot: sha(seed, []byte("state")), ValidatorsHash: sha(seed, []byte("vh"))}
	msg := crypto.Hash(append(append(append([]byte{}, []byte("LSK_CE_")...), chainID...), cert.SigningBytes()...))
	pairs := []*crypto.BLSPublicKeySignaturePair{}
	threshold := uint64(0)
	first := -1
	for i := 0; i < n; i++ {
		if mask>>uint(i)&1 == 1 {
			if first < 0 {
				first = i
			}
			pairs = append(pairs, &crypto.BLSPublicKeySignaturePair{PublicKey: keys[i], Signature: crypto.BLSSign(msg, sks[i])})
			threshold += weights[i]
		}
	}
	if first < 0 {
		return "no-signer"
	}
	bits, agg := crypto.BLSCreateAggSig(keys, pairs)
	single := pairs[0].Signature
	pop := crypto.BLSPopProve(sks[first])
	vmsg := msg
	switch tamper {
	case "sig":
		// another valid signature: a different message signed by the same keys
		other := crypto.Hash([]byte("other"))
		p2 := []*crypto.BLSPublicKeySignaturePair{}
		for i := 0; i < n; i++ {
			if mask>>uint(i)&1 == 1 {
				p2 = append(p2, &crypto.BLSPublicKeySignaturePair{PublicKey: keys[i], Signature: crypto.BLSSign(other, sks[i])})
			}
		}
		_, agg = crypto.BLSCreateAggSig(keys, p2)
		single = p2[0].Signature
		pop = crypto.BLSPopProve(sks[(first+1)%n])
	case "msg":
		vmsg = flip(msg)
		cert.Height++
	case "bits":
		bits = flip(bits)
	case "key":
		keys[first], keys[(first+1)%n] = keys[(first+1)%n], keys[first]
	case "weights":
		threshold++
	}
	ctx := op
	out := []string{}
	out = append(out, "v="+r.check("crypto.BLSVerify", ctx,
		[]arg{{name: "msg", b: corr.Spare(vmsg)}, {name: "signature", b: corr.Spare(single)}, {name: "publicKey", b: corr.Spare(keys[first])}},
		func(a []arg) string { return strconv.FormatBool(crypto.BLSVerify(a[0].b, a[1].b, a[2].b)) }))
	out = append(out, "pop="+r.check("crypto.BLSPopVerify", ctx,
		[]arg{{name: "publicKey", b: corr.Spare(keys[first])}, {name: "proof", b: corr.Spare(pop)}},
		func(a []arg) string { return strconv.FormatBool(crypto.BLSPopVerify(a[0].b, a[1].b)) }))
	out = append(out, "agg="+r.check("crypto.BLSVerifyAggSig", ctx,
		[]arg{{name: "keysList", l: corr.SpareList(keys)}, {name: "aggregationBits", b: corr.Spare(bits)}, {name: "signature", b: corr.Spare(agg)}, {name: "message", b: corr.Spare(vmsg)}},
		func(a []arg) string {
			return strconv.FormatBool(crypto.BLSVerifyAggSig(a[0].l, a[1].b, a[2].b, a[3].b))
		}))
	out = append(out, "wagg="+r.check("crypto.BLSVerifyWeightedAggSig", ctx,
		[]arg{{name: "keysList", l: corr.SpareList(keys)}, {name: "aggregationBits", b: corr.Spare(bits)}, {name: "signature", b: corr.Spare(agg)},
			{name: "weights", u: append([]uint64{}, weights...)}, {name: "message", b: corr.Spare(vmsg)}},
		func(a []arg) string {
			return strconv.FormatBool(crypto.BLSVerifyWeightedAggSig(a[0].l, a[1].b, a[2].b, a[3].u, threshold, a[4].b))
		}))
	// the certificate methods: the certificate itself is an argument (value receiver, but its slices are shared)
	certArgs := func(c *certificate.Certificate) []arg {
		return []arg{{name: "cert.BlockID", b: c.BlockID}, {name: "cert.StateRoot", b: c.StateRoot}, {name: "cert.ValidatorsHash", b: c.ValidatorsHash},
			{name: "cert.AggregationBits", b: c.AggregationBits}, {name: "cert.Signature", b: c.Signature}, {name: "cert.Encode()", b: c.Encode()}}
	}
	cert.BlockID, cert.StateRoot, cert.ValidatorsHash = corr.Spare(cert.BlockID), corr.Spare(cert.StateRoot), corr.Spare(cert.ValidatorsHash)
	cert.AggregationBits, cert.Signature = corr.Spare(bits), corr.Spare(agg)
	cid, sg, pk := corr.Spare(chainID), corr.Spare(single), corr.Spare(keys[first])
	out = append(out, "cert="+r.pure(corr.Pure{Sig: "c10pure-certificate-verify", Name: "Certificate.Verify", Context: ctx,
		Snap: func() []string {
			return image(append(certArgs(cert), arg{name: "chainID", b: cid}, arg{name: "signature", b: sg}, arg{name: "blsPublicKey", b: pk}))
		},
		Call: func() string { return strconv.FormatBool(cert.Verify(cid, sg, pk)) },
		Variants: func(string) []corr.PureVariant {
			c := new(certificate.Certificate)
			err := c.Decode(cert.Encode())
			return []corr.PureVariant{{Name: "decode(encode(cert))", Call: func() string {
				if err != nil {
					return "decode-error"
				}
				return strconv.FormatBool(c.Verify(append([]byte{}, cid...), append([]byte{}, sg...), append([]byte{}, pk...)))
			}}}
		}}))
	kl, ws := corr.SpareList(keys), append([]uint64{}, weights...)
	out = append(out, "certagg="+r.pure(corr.Pure{Sig: "c10pure-certificate-verifyaggregate", Name: "Certificate.VerifyAggregateCertificateSignature", Context: ctx,
		Snap: func() []string {
			return image(append(certArgs(cert), arg{name: "keyList", l: kl}, arg{name: "weights", u: ws}, arg{name: "chainID", b: cid}))
		},
		Call: func() string {
			return strconv.FormatBool(cert.VerifyAggregateCertificateSignature(kl, ws, threshold, cid))
		},
		Variants: func(string) []corr.PureVariant {
			c := new(certificate.Certificate)
			err := c.Decode(cert.Encode())
			k := cloneArgs([]arg{{l: kl}})[0].l
			return []corr.PureVariant{{Name: "decode(encode(cert))", Call: func() string {
				if err != nil {
					return "decode-error"
				}
				return strconv.FormatBool(c.VerifyAggregateCertificateSignature(k, append([]uint64{}, ws...), threshold, append([]byte{}, cid...)))
			}}}
		}}))
	return strings.Join(out, " ")
}

func (r *runner) ed(w []string, op string) string {
	seed := corr.UnHex(w[1])
	tamper := w[2]
	pub, priv, err := crypto.GetKeys(corr.Hex(seed))
	if err != nil {
		return "keygen-error"
	}
	chainID := sha(seed, []byte("chain"))[:4]
	hdr := &blockchain.BlockHeader{Version: 2, Timestamp: 100 + uint32(seed[0]), Height: uint32(seed[1]) + 1,
		PreviousBlockID: sha(seed, []byte("prev")), GeneratorAddress: crypto.GetAddress(pub), TransactionRoot: sha(seed, []byte("tx")),
		AssetRoot: sha(seed, []byte("as")), EventRoot: sha(seed, []byte("ev")), StateRoot: sha(seed, []byte("st")),
		MaxHeightPrevoted: uint32(seed[2]), MaxHeightGenerated: uint32(seed[3]), ImpliesMaxPrevotes: seed[4]&1 == 1,
		ValidatorsHash:  sha(seed, []byte("vh")),
		AggregateCommit: &blockchain.AggregateCommit{Height: uint32(seed[5]), AggregationBits: []byte{seed[6]}, CertificateSignature: sha(seed, []byte("cs"))}}
	hdr.Sign(chainID, priv)
	signing := hdr.SigningBytes()
	msg := crypto.Hash(append(append(append([]byte{}, blockchain.TagBlockHeader...), chainID...), signing...))
	sig := append([]byte{}, hdr.Signature...)
	switch tamper {
	case "sig":
		sig = flip(sig)
		hdr.Signature = flip(hdr.Signature)
	case "msg":
		msg = flip(msg)
		signing = flip(signing)
		hdr.Height++
	case "key":
		pub = flip(pub)
	}
	out := []string{}
	out = append(out, "ed="+r.check("crypto.VerifySignature", op,
		[]arg{{name: "publicKey", b: corr.Spare(pub)}, {name: "signature", b: corr.Spare(sig)}, {name: "message", b: corr.Spare(msg)}},
		func(a []arg) string { return strconv.FormatBool(crypto.VerifySignature(a[0].b, a[1].b, a[2].b) == nil) }))
	out = append(out, "blocksig="+r.check("blockchain.ValidateBlockSignature", op,
		[]arg{{name: "publicKey", b: corr.Spare(pub)}, {name: "signature", b: corr.Spare(sig)}, {name: "chainID", b: corr.Spare(chainID)}, {name: "signingBytes", b: corr.Spare(signing)}},
		func(a []arg) string {
			return strconv.FormatBool(blockchain.ValidateBlockSignature(a[0].b, a[1].b, a[2].b, a[3].b))
		}))
	cid, pk := corr.Spare(chainID), corr.Spare(pub)
	hdr.Signature, hdr.StateRoot, hdr.PreviousBlockID = corr.Spare(hdr.Signature), corr.Spare(hdr.StateRoot), corr.Spare(hdr.PreviousBlockID)
	out = append(out, "hdr="+r.pure(corr.Pure{Sig: "c10pure-blockheader-verifysignature", Name: "BlockHeader.VerifySignature", Context: op,
		Snap: func() []string {
			return image([]arg{{name: "header.ID", b: hdr.ID}, {name: "header.Signature", b: hdr.Signature}, {name: "header.StateRoot", b: hdr.StateRoot},
				{name: "header.PreviousBlockID", b: hdr.PreviousBlockID}, {name: "header.Encode()", b: hdr.Encode()}, {name: "chainID", b: cid}, {name: "publicKey", b: pk}})
		},
		Call: func() string { return strconv.FormatBool(hdr.VerifySignature(cid, pk)) },
		Variants: func(string) []corr.PureVariant {
			h2, err := blockchain.NewBlockHeader(hdr.Encode())
			return []corr.PureVariant{{Name: "decode(encode(header))", Call: func() string {
				if err != nil {
					return "decode-error"
				}
				return strconv.FormatBool(h2.VerifySignature(append([]byte{}, cid...), append([]byte{}, pk...)))
			}}}
		}}))
	return strings.Join(out, " ")
}

func (r *runner) decode(w []string, op string) string {
	name, strict := w[1], w[2] == "1"
	mk, ok := codec.VerifRegistry[name]
	if !ok {
		return "unregistered"
	}
	buf := corr.Spare(corr.UnHex(w[3]))
	fn := name + ".Decode"
	if strict {
		fn = name + ".DecodeStrict"
	}
	var last codec.VerifCodec
	dec := func(b []byte) string {
		v := mk()
		var err error
		if strict {
			err = v.DecodeStrict(b)
		} else {
			err = v.Decode(b)
		}
		if err != nil {
			return "err " + c08.ErrName(err)
		}
		last = v
		return "ok " + corr.Hex(v.Encode())
	}
	res := r.pure(corr.Pure{Sig: "c10pure-decode", Name: fn, Context: clip(op),
		Snap: func() []string { return corr.SnapBytesCap(nil, "data", buf) },
		Call: func() string { return dec(buf) },
		Variants: func(string) []corr.PureVariant {
			c := append([]byte{}, buf...)
			return []corr.PureVariant{{Name: "deep-clone", Call: func() string { return dec(c) }}}
		}})
	// the decoded object owns its memory: reusing the receive buffer must not change it
	if strings.HasPrefix(res, "ok ") {
		last = nil
		if dec(buf) == res && last != nil {
			obj := last
			for i := range buf[:cap(buf)] {
				buf[:cap(buf)][i] ^= 0xff
			}
			func() {
				defer func() {
					if e := recover(); e != nil {
						r.fails = append(r.fails, corr.Fail{Sig: "c10pure-decode-aliases-input", Op: r.opIdx, Detail: fmt.Sprintf("%s: Encode of the decoded object panics after the input buffer was overwritten: %v", clip(op), e)})
					}
				}()
				if after := "ok " + corr.Hex(obj.Encode()); after != res {
					r.fails = append(r.fails, corr.Fail{Sig: "c10pure-decode-aliases-input", Op: r.opIdx,
						Detail: fmt.Sprintf("%s: the object returned by %s shares memory with the input buffer: after the buffer was overwritten it encodes as %s instead of %s", clip(op), fn, clip(after), clip(res))})
				}
			}()
		}
	}
	if len(res) > 80 {
		res = res[:80]
	}
	return res
}

func clip(s string) string {
	if len(s) > 400 {
		return s[:400] + "..."
	}
	return s
}

func (prop) RunImpl(c corr.Case) ([]string, []corr.Fail) {
	r := &runner{}
	out := make([]string, 0, len(c.Ops))
	for i, op := range c.Ops {
		r.opIdx = i
		w := strings.Fields(op)
		func() {
			defer func() {
				if e := recover(); e != nil {
					out = append(out, "panic") // not a purity question
				}
			}()
			switch w[0] {
			case "reset":
				out = append(out, "ok")
			case "bls":
				out = append(out, r.bls(w, op))
			case "ed":
				out = append(out, r.ed(w, op))
			case "decode":
				out = append(out, r.decode(w, op))
			default:
				out = append(out, "bad-op")
			}
		}()
	}
	return out, r.fails
}

func (prop) Classify(c corr.Case, out []string) string {
	feats := map[string]bool{}
	for i, op := range c.Ops {
		if i >= len(out) {
			break
		}
		w := strings.Fields(op)
		switch w[0] {
		case "bls":
			if strings.Contains(out[i], "agg=true") {
				feats["agg-accepted"] = true
			}
			if strings.Contains(out[i], "agg=false") {
				feats["agg-rejected"] = true
			}
		case "ed":
			if strings.Contains(out[i], "hdr=true") {
				feats["sig-accepted"] = true
			} else if strings.Contains(out[i], "hdr=false") {
				feats["sig-rejected"] = true
			}
		case "decode":
			if strings.HasPrefix(out[i], "ok") {
				feats["decoded"] = true
			} else if strings.HasPrefix(out[i], "err") {
				feats["decode-rejected"] = true
			}
		}
	}
	if len(feats) == 0 {
		return ""
	}
	fs := []string{}
	for f := range feats {
		fs = append(fs, f)
	}
	sort.Strings(fs)
	return c.Tag + ":" + strings.Join(fs, "+")
}
