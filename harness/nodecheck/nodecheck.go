// Package nodecheck registers the pseudo-property "NODE": the self-test of the node harness
// (verifharness/node). It has no Lean model; `vh NODE --tier quick` runs it stand-alone.
package nodecheck

import (
	"fmt"
	"math/rand"
	"strconv"
	"strings"
	"time"

	"verifharness/corr"
	"verifharness/node"
)

type prop struct{}

func init() { corr.Register(prop{}) }

func (prop) ID() string    { return "NODE" }
func (prop) NoModel() bool { return true }
func (prop) Parallel() int { return 4 }

func (prop) CaseTimeout() time.Duration { return 5 * time.Minute }

// Generate: one case per configuration: "selftest <numValidators> <batchSize> <seed>".
func (prop) Generate(rng *rand.Rand, tier string) []corr.Case {
	rounds := 1
	if tier == "thorough" {
		rounds = 6
	}
	var cases []corr.Case
	for r := 0; r < rounds; r++ {
		for _, nv := range []int{1, 4, 7} {
			lo := 4
			if nv > lo {
				lo = nv
			}
			var sizes []int
			if tier == "thorough" {
				for bs := lo; bs <= 11; bs++ {
					sizes = append(sizes, bs)
				}
			} else {
				sizes = []int{lo + rng.Intn(11-lo+1)}
			}
			for _, bs := range sizes {
				cases = append(cases, corr.Case{Ops: []string{fmt.Sprintf("selftest %d %d %d", nv, bs, rng.Int63n(1<<40))}, Tag: fmt.Sprintf("nv%d", nv)})
			}
		}
	}
	cases = append(cases, corr.Case{Ops: []string{fmt.Sprintf("full %d", rng.Int63n(1<<40))}, Tag: "full"})
	return cases
}

func (prop) RunImpl(c corr.Case) ([]string, []corr.Fail) {
	var out []string
	var fails []corr.Fail
	for i, op := range c.Ops {
		w := strings.Fields(op)
		rep := &node.SelfTestReport{}
		var err error
		switch w[0] {
		case "selftest":
			nv, _ := strconv.Atoi(w[1])
			bs, _ := strconv.Atoi(w[2])
			seed, _ := strconv.ParseInt(w[3], 10, 64)
			err = node.SelfTestConfig(rep, nv, bs, seed)
		case "full":
			seed, _ := strconv.ParseInt(w[1], 10, 64)
			rep, err = node.SelfTestFull(seed)
		default:
			err = fmt.Errorf("unknown op %q", op)
		}
		if err != nil {
			out = append(out, "fail")
			fails = append(fails, corr.Fail{Sig: "node-selftest", Detail: err.Error(), Op: i})
			continue
		}
		out = append(out, "ok findings="+strings.Join(rep.FindingFlags(), ","))
	}
	return out, fails
}

func (prop) Classify(c corr.Case, out []string) string {
	w := strings.Fields(c.Ops[0])
	if len(out) == 0 || !strings.HasPrefix(out[0], "ok") {
		return "failed"
	}
	if w[0] == "selftest" {
		return "nv=" + w[1] + ",bs=" + w[2]
	}
	return w[0]
}

// Extra reports the tolerated findings and the timing of block processing.
func (prop) Extra(rng *rand.Rand, tier string) corr.ExtraResult {
	res := corr.ExtraResult{Notes: map[string]any{}}
	rep, err := node.SelfTestFull(rng.Int63n(1 << 40))
	if err != nil {
		res.Fails = append(res.Fails, corr.Fail{Sig: "node-selftest", Detail: err.Error(), Op: -1})
	}
	res.Evaluations = rep.Blocks
	var fs []string
	for _, f := range rep.Findings {
		fs = append(fs, f.String())
	}
	res.Notes["tolerated_findings"] = fs
	res.Notes["finding_flags"] = rep.FindingFlags()
	res.Notes["ms_per_processed_block"] = rep.MsPerBlock()
	res.Notes["log"] = rep.Log
	// plain throughput: 4 validators, 300 empty blocks
	n, err := node.New(node.Config{NumValidators: 4, Seed: 1})
	if err == nil {
		t0 := time.Now()
		_, err = n.Extend(300)
		res.Notes["ms_per_block_build_and_process_300_empty"] = float64(time.Since(t0).Microseconds()) / 1000 / 300
		n.Close()
	}
	if err != nil {
		res.Fails = append(res.Fails, corr.Fail{Sig: "node-selftest", Detail: "throughput run: " + err.Error(), Op: -1})
	}
	res.Samples = fs
	return res
}
