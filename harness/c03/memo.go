package c03

// C03MEMO - "a rejected (or merely staged) block leaves nothing behind that changes the verdict on a later block".
//
// Defect class: a component on the acceptance path (the BFT module, its API, the chain object, the executer, the
// state executer) keeps something in memory that was computed on a STAGED store - decoded BFT parameters, an event
// root, a state root, a verdict - keyed by something that is not an identity of the store (the height, the slot, the
// generator). processValidated reads the BFT parameters of height+1 from the staged store right after abi.Execute;
// pkg/generator does the same for its own candidate (sealBlock). When the candidate is then rejected (wrong state
// root refused by Commit, wrong event root, wrong validatorsHash, a failing application) or simply dropped, the
// store is gone but the memory is not, and the NEXT candidate at the same height is judged against the outcome of
// the rejected one: a block carrying the rejected block's validatorsHash is appended, the right one is refused.
//
// The family: PAIRS / TRIPLES of candidates at the same height offered one after the other to the same node N:
//
//	X   rejected late (x=stateroot | eventroot | vhash | vhash-old | failafter | failcommit) or forged by the node
//	    itself as a generator candidate on a store that is dropped (x=forge: Executer.BFTBeforeTransactionsExecute,
//	    SetBFTParameters, GetBFTParameters - the calls pkg/generator makes); it stages a change A of the validator
//	    set / the weights / the generator order / the precommit threshold / the certificate threshold, has its own
//	    transactions and application events; one or two such X per triple;
//	F   executes to a DIFFERENT change B (own transactions, own events) but carries a header field computed for X's
//	    outcome: validatorsHash of A (f-vhash), the event root of X (f-event), the state root of X (f-state);
//	Y   F with the correct fields.
//
// Oracle, model-free. A second node T is created with node.New from the same configuration and is given exactly the
// blocks N accepted: T never sees an X. All candidates are BUILT on T (so what "the valid successor" is does not
// depend on N's memory either).
//   - the verdict of N on F / Y / every honest block equals the verdict of T (c03-verdict-depends-on-rejected-block),
//     and after a block both accepted, BFT store, application state, finalized height and tip are equal;
//   - the verdict of T equals the reference validity of facts.go (refViolations: a function of the block and of the
//     committed chain; c03-fresh-verdict-differs-from-reference), an X the reference calls invalid is not appended;
//   - after every rejected candidate and after a forged one the database dump, BFT store, finalized height, tip,
//     volatile executer state of the node are unchanged and no event was emitted (c03-memo-rejected-changed-state);
//   - the validatorsHash the node computes for its own candidate is the hash of the change it staged.
//
// Model-free pseudo-property (NoModel): ops are `reset ..` and `triple ..`; every op is a function of its own line.

import (
	"bytes"
	"fmt"
	"math/rand"
	"strconv"
	"strings"
	"time"

	"github.com/LiskHQ/lisk-engine/pkg/blockchain"
	"github.com/LiskHQ/lisk-engine/pkg/labi"

	"verifharness/corr"
	"verifharness/node"
)

// SigMemo is the signature of the history-independence oracle of this family.
const SigMemo = "c03-verdict-depends-on-rejected-block"

type memoProp struct{}

func init() { corr.Register(memoProp{}) }

func (memoProp) ID() string                 { return "C03MEMO" }
func (memoProp) NoModel() bool              { return true }
func (memoProp) Parallel() int              { return 4 }
func (memoProp) CaseTimeout() time.Duration { return 5 * time.Minute }

var memoXKinds = []string{"stateroot", "eventroot", "vhash", "forge", "failcommit", "vhash-old", "failafter"}
var memoChangeKinds = []string{"set", "wgt", "rot", "thr", "cert"}

func (memoProp) Generate(rng *rand.Rand, tier string) []corr.Case {
	type shape struct {
		nv, extra, batch int
		weights          string
	}
	shapes := []shape{{4, 2, 5, "rand"}, {3, 2, 4, "steps"}, {5, 1, 6, "heavy"}, {2, 2, 3, "rand"}}
	rounds, triples := 1, 14
	if tier == "thorough" {
		rounds, triples = 6, 24
		shapes = append(shapes, shape{7, 2, 8, "steps"}, shape{1, 2, 3, "rand"})
	}
	now := nowUnix()
	var cases []corr.Case
	k := rng.Intn(len(memoXKinds))
	for r := 0; r < rounds; r++ {
		for _, s := range shapes {
			gts := now - 1_000_000
			gts -= gts % 10
			ws := make([]string, s.nv)
			heavy := rng.Intn(s.nv)
			for i := range ws {
				w := uint64(1)
				switch s.weights {
				case "rand":
					if rng.Intn(4) == 0 {
						w = uint64(1 + rng.Intn(3))
					}
				case "steps":
					w = 1 << uint(i)
				case "heavy":
					if i == heavy {
						w = uint64(2*s.nv + 2)
					}
				}
				ws[i] = fmt.Sprint(w)
			}
			ops := []string{fmt.Sprintf("reset nv=%d extra=%d batch=%d seed=%d gts=%d bt=10 now=%d w=%s", s.nv, s.extra, s.batch, rng.Int63n(1<<40), gts, now, strings.Join(ws, ","))}
			for t := 0; t < triples; t++ {
				x := memoXKinds[k%len(memoXKinds)]
				k++
				if rng.Intn(3) == 0 { // two rejected candidates before F
					x += "," + memoXKinds[rng.Intn(len(memoXKinds))]
				}
				ops = append(ops, fmt.Sprintf("triple pre=%d x=%s a=%s b=%s r=%d", rng.Intn(3), x,
					memoChangeKinds[rng.Intn(len(memoChangeKinds))], memoChangeKinds[rng.Intn(len(memoChangeKinds))], rng.Int63n(1<<40)))
			}
			cases = append(cases, corr.Case{Ops: ops, Tag: fmt.Sprintf("memo-nv%d-%s", s.nv, s.weights)})
		}
	}
	return cases
}

// ---- runner ----

type memoRunner struct {
	cfg  caseCfg
	n, t *node.Node // the node with the history; the fresh twin (also the builder)
	p    *planner   // builds on t
	dead string     // the two chains diverged / a harness step failed: later ops of the case are not judged
}

func (r *memoRunner) close() {
	if r.n != nil {
		r.n.Close()
	}
	if r.t != nil {
		r.t.Close()
	}
	r.n, r.t, r.p = nil, nil, nil
}

func (r *memoRunner) reset(a map[string]string) error {
	r.close()
	r.dead = ""
	atoi := func(s string) int { v, _ := strconv.Atoi(s); return v }
	c := caseCfg{nv: atoi(a["nv"]), extra: atoi(a["extra"]), batch: atoi(a["batch"]), genesisTS: uint32(atoi(a["gts"])), blockTime: uint32(atoi(a["bt"])), now: uint32(atoi(a["now"]))}
	c.seed, _ = strconv.ParseInt(a["seed"], 10, 64)
	for _, s := range strings.Split(a["w"], ",") {
		x, _ := strconv.ParseUint(s, 10, 64)
		c.weights = append(c.weights, x)
	}
	if c.nv < 1 || len(c.weights) != c.nv || c.blockTime == 0 {
		return fmt.Errorf("bad reset")
	}
	r.cfg = c
	var err error
	if r.n, err = node.New(c.nodeConfig()); err != nil {
		return err
	}
	if r.t, err = node.New(c.nodeConfig()); err != nil {
		return err
	}
	r.n.ABI.LogCalls, r.t.ABI.LogCalls = false, false
	if !bytes.Equal(r.n.Genesis.Header.ID, r.t.Genesis.Header.ID) {
		return fmt.Errorf("the same configuration gives two genesis blocks")
	}
	r.p = &planner{n: r.t, cfg: c, nonce: 5000}
	r.p.w = &world{n: r.t, gens: []genList{{from: 1, vals: append([]*node.Validator{}, r.t.Validators[:c.nv]...)}}}
	return nil
}

type memoSnap struct {
	dump, bft, vol string
	fin            uint32
	tip            []byte
}

func memoSnapOf(n *node.Node) memoSnap {
	n.DrainEvents()
	return memoSnap{dump: n.DumpDBString(), bft: n.BFTDump(), vol: volatileState(n), fin: n.Finalized(), tip: append([]byte{}, n.Tip().Header.ID...)}
}

// unchanged compares the node with the snapshot taken before a rejected candidate.
func (s memoSnap) unchanged(n *node.Node) string {
	evs := n.DrainEvents()
	var d []string
	if n.DumpDBString() != s.dump {
		d = append(d, "database")
	}
	if n.BFTDump() != s.bft {
		d = append(d, "bft-store")
	}
	if n.Finalized() != s.fin {
		d = append(d, "finalized-height")
	}
	if !bytes.Equal(n.Tip().Header.ID, s.tip) {
		d = append(d, "tip")
	}
	if volatileState(n) != s.vol {
		d = append(d, "volatile-executer-state")
	}
	if len(evs) != 0 {
		d = append(d, fmt.Sprintf("%d event(s) emitted", len(evs)))
	}
	return strings.Join(d, ",")
}

func memoClass(res node.Result, n *node.Node) string {
	switch {
	case res.Applied:
		return "applied"
	case res.Err == nil:
		return "dropped"
	}
	return classify(res.Err, n.ABI, 0)
}

type memoStep struct {
	r     *memoRunner
	hist  []string // what N was given at this height so far (the failing input in words)
	fails []corr.Fail
	out   []string
}

func (s *memoStep) fail(sig, format string, a ...any) {
	s.fails = append(s.fails, corr.Fail{Sig: sig, Detail: fmt.Sprintf(format, a...) + " | candidates given to the node at this height so far: " + strings.Join(s.hist, " ; ")})
}

func describe(b *blockchain.Block) string {
	sc, _ := node.ScriptFromAssets(b.Assets)
	ch, _ := scriptChange(sc)
	return fmt.Sprintf("block h=%d id=%s gen=%s ts=%d txs=%d change=%s vhash=%s eventRoot=%s stateRoot=%s", b.Header.Height, corr.Hex(b.Header.ID[:6]), corr.Hex(b.Header.GeneratorAddress[:4]),
		b.Header.Timestamp, len(b.Transactions), trunc(ch, 160), corr.Hex(b.Header.ValidatorsHash[:min(6, len(b.Header.ValidatorsHash))]), corr.Hex(b.Header.EventRoot[:min(6, len(b.Header.EventRoot))]), corr.Hex(b.Header.StateRoot[:min(6, len(b.Header.StateRoot))]))
}

// offerBoth gives a candidate to the node and to the fresh twin and compares. Returns whether both applied it.
func (s *memoStep) offerBoth(label string, b *blockchain.Block) bool {
	r := s.r
	viol := refViolations(r.p.w, b, nowUnix())
	sn, st := memoSnapOf(r.n), memoSnapOf(r.t)
	rn := r.n.ProcessResult(b)
	rt := r.t.ProcessResult(b)
	cn, ct := memoClass(rn, r.n), memoClass(rt, r.t)
	s.hist = append(s.hist, fmt.Sprintf("%s (%s) -> node %s", label, describe(b), cn))
	s.out = append(s.out, fmt.Sprintf("%s=%s", label, cn))
	if rn.Applied != rt.Applied {
		s.fail(SigMemo, "%s: the node answers %q (err=%v), a fresh node holding the same chain that never saw the rejected candidates answers %q (err=%v); reference validity of the block on this tip: violated rules %v; block %x",
			label, cn, rn.Err, ct, rt.Err, viol, b.Encode())
		r.dead = "diverged at " + label
		return false
	}
	if rt.Applied != (len(viol) == 0) {
		s.fail("c03-fresh-verdict-differs-from-reference", "%s: a fresh node answers %q (err=%v), the reference of facts.go names the violated rules %v; block %x", label, ct, rt.Err, viol, b.Encode())
	}
	if !rn.Applied {
		if d := sn.unchanged(r.n); d != "" {
			s.fail("c03-memo-rejected-changed-state", "%s rejected (%s) by the node but changed: %s", label, cn, d)
		}
		if d := st.unchanged(r.t); d != "" {
			s.fail("c03-memo-rejected-changed-state", "%s rejected (%s) by the fresh node but changed: %s", label, ct, d)
		}
		return false
	}
	r.p.w.trackGens(b)
	r.n.DrainEvents()
	r.t.DrainEvents()
	var d []string
	if r.n.BFTDump() != r.t.BFTDump() {
		d = append(d, "bft-store")
	}
	if r.n.ABI.String() != r.t.ABI.String() {
		d = append(d, "application-state")
	}
	if r.n.Finalized() != r.t.Finalized() {
		d = append(d, "finalized-height")
	}
	if !bytes.Equal(r.n.Tip().Encode(), r.t.Tip().Encode()) {
		d = append(d, "tip")
	}
	if len(d) != 0 {
		s.fail(SigMemo, "%s applied by both, but the node and the fresh node differ afterwards in: %s", label, strings.Join(d, ","))
		r.dead = "states differ after " + label
	}
	return true
}

// offerRejected gives a candidate only to the node (the twin must never see it).
func (s *memoStep) offerRejected(label string, b *blockchain.Block) {
	r := s.r
	viol := refViolations(r.p.w, b, nowUnix())
	sn := memoSnapOf(r.n)
	rn := r.n.ProcessResult(b)
	cn := memoClass(rn, r.n)
	s.hist = append(s.hist, fmt.Sprintf("%s (%s) -> node %s", label, describe(b), cn))
	s.out = append(s.out, fmt.Sprintf("%s=%s", label, cn))
	if rn.Applied {
		if len(viol) == 0 {
			s.fail("c03-memo-harness", "%s was meant to be invalid but is valid", label)
		} else {
			s.fail("c03-invalid-block-accepted:"+viol[0], "%s: appended although it violates %v; block %x", label, viol, b.Encode())
		}
		r.dead = "rejected candidate applied: " + label
		return
	}
	if len(viol) == 0 {
		s.fail(SigMemo, "%s: the reference finds no violated rule, the node answers %q (err=%v); block %x", label, cn, rn.Err, b.Encode())
	}
	if d := sn.unchanged(r.n); d != "" {
		s.fail("c03-memo-rejected-changed-state", "%s rejected (%s) but changed: %s", label, cn, d)
	}
}

// forge: the node computes a candidate of its own on a store that is dropped, with the calls pkg/generator makes.
func (s *memoStep) forge(label string, b *blockchain.Block, vc *node.ValidatorChange) {
	r := s.r
	sn := memoSnapOf(r.n)
	want, _ := node.ValidatorsHashOf(vc.Validators, vc.CertificateThreshold)
	var got []byte
	err := func() (err error) {
		defer func() {
			if x := recover(); x != nil {
				err = &node.PanicError{Value: x}
			}
		}()
		store := r.n.Store()
		if err := r.n.Exec.BFTBeforeTransactionsExecute(b.Header.Readonly(), store); err != nil {
			return err
		}
		if err := r.n.Exec.SetBFTParameters(store, vc.PrecommitThreshold, vc.CertificateThreshold, labi.Validators(vc.Validators)); err != nil {
			return err
		}
		params, err := r.n.Exec.GetBFTParameters(store, b.Header.Height+1)
		if err != nil {
			return err
		}
		got = params.ValidatorsHash()
		return nil
	}()
	s.hist = append(s.hist, fmt.Sprintf("%s (own candidate on a dropped store: %s) -> err=%v sealed vhash=%s", label, describe(b), err, corr.Hex(got[:min(6, len(got))])))
	s.out = append(s.out, fmt.Sprintf("%s=%s", label, b01(err == nil)))
	if err != nil {
		s.fail(SigMemo, "%s: the BFT step / parameter change of the node's own valid candidate fails on the node: %v", label, err)
	} else if !bytes.Equal(got, want) {
		s.fail(SigMemo, "%s: the node seals its own candidate with validatorsHash %x, the parameters it staged for this candidate have %x", label, got, want)
	}
	if d := sn.unchanged(r.n); d != "" {
		s.fail("c03-memo-rejected-changed-state", "%s: a candidate computed on a dropped store changed: %s", label, d)
	}
}

// memoChange: a change of the given kind relative to the parameters in force on the twin, whose validatorsHash
// (where the kind changes it) is none of avoid.
func memoChange(p *planner, kind string, avoid [][]byte) *node.ValidatorChange {
	r := p.rng
	cur, err := p.n.BFTParams(p.n.Height() + 1)
	if err != nil {
		return nil
	}
	for try := 0; try < 12; try++ {
		gens, weights := p.currentSet()
		if len(gens) == 0 {
			return nil
		}
		next := append([]*node.Validator{}, gens...)
		nw := map[int]uint64{}
		in := map[int]bool{}
		for _, v := range gens {
			nw[v.Index] = weights[v.Index]
			in[v.Index] = true
		}
		pre, cert := cur.PrecommitThreshold(), cur.CertificateThreshold()
		k := kind
		if try >= 6 {
			k = "set"
		}
		rethreshold := false
		switch k {
		case "set":
			var out []*node.Validator
			for _, v := range p.n.Validators {
				if !in[v.Index] {
					out = append(out, v)
				}
			}
			if len(out) == 0 {
				k = "wgt"
				v := next[r.Intn(len(next))]
				nw[v.Index] = nw[v.Index] + uint64(1+r.Intn(3))
			} else {
				i := r.Intn(len(next))
				nv := out[r.Intn(len(out))]
				w := nw[next[i].Index]
				delete(nw, next[i].Index)
				next[i] = nv
				if w == 0 || r.Intn(2) == 0 {
					w = uint64(1 + r.Intn(2))
				}
				nw[nv.Index] = w
			}
			rethreshold = true
		case "wgt":
			v := next[r.Intn(len(next))]
			nw[v.Index] = nw[v.Index] + uint64(1+r.Intn(3))
			rethreshold = true
		case "rot":
			if len(next) >= 2 {
				next = append(next[1:], next[0])
			}
			v := next[r.Intn(len(next))] // the order alone does not change the hash
			nw[v.Index] = nw[v.Index] + 1
			rethreshold = true
		}
		total := uint64(0)
		var lv []*labi.Validator
		for _, v := range next {
			lv = append(lv, v.Labi(nw[v.Index]))
			total += nw[v.Index]
		}
		if total == 0 {
			return nil
		}
		lo := total/3 + 1
		if rethreshold {
			pre, cert = node.DefaultThreshold(total), node.DefaultThreshold(total)
		}
		switch k {
		case "thr": // precommit threshold only: the validatorsHash stays, the certificate threshold too
			pre = lo + uint64(r.Int63n(int64(total-lo+1)))
			if cert < lo || cert > total {
				cert = node.DefaultThreshold(total)
			}
		case "cert": // certificate threshold only
			cert = lo + uint64(r.Int63n(int64(total-lo+1)))
			if pre < lo || pre > total {
				pre = node.DefaultThreshold(total)
			}
		}
		vc := &node.ValidatorChange{Validators: lv, PrecommitThreshold: pre, CertificateThreshold: cert}
		h, err := node.ValidatorsHashOf(vc.Validators, vc.CertificateThreshold)
		if err != nil {
			continue
		}
		clash := false
		for _, a := range avoid {
			if bytes.Equal(a, h) {
				clash = true
			}
		}
		if k == "thr" {
			if pre != cur.PrecommitThreshold() || total == lo {
				return vc
			}
			continue
		}
		if !clash && !bytes.Equal(h, cur.ValidatorsHash()) {
			return vc
		}
	}
	return nil
}

func (r *memoRunner) content(nTx, nEv int) (txs []*blockchain.Transaction, evs []*blockchain.Event) {
	for i := 0; i < nTx; i++ {
		exec := byte(0)
		if r.p.rng.Intn(4) == 0 {
			exec = node.TxFail
		}
		txs = append(txs, r.p.tx(0, exec, r.p.rng.Intn(20)))
	}
	for i := 0; i < nEv; i++ {
		evs = append(evs, r.p.event("memo"))
	}
	return
}

func rnd32(r *rand.Rand) []byte {
	b := make([]byte, 32)
	r.Read(b)
	return b
}

func (r *memoRunner) triple(a map[string]string) (string, []corr.Fail) {
	s := &memoStep{r: r}
	seed, _ := strconv.ParseInt(a["r"], 10, 64)
	rng := rand.New(rand.NewSource(seed))
	r.p.rng = rng
	t := r.t
	harness := func(format string, x ...any) (string, []corr.Fail) {
		r.dead = "harness: " + fmt.Sprintf(format, x...)
		s.fail("c03-memo-harness", format, x...)
		return "harness", s.fails
	}
	// honest blocks before the triple, some with an accepted change
	pre, _ := strconv.Atoi(a["pre"])
	for i := 0; i < pre && r.dead == ""; i++ {
		o := node.BlockOpts{SlotsAhead: 1 + rng.Intn(2)}
		o.Txs, o.AfterEvents = r.content(rng.Intn(3), rng.Intn(2))
		if rng.Intn(3) == 0 {
			o.ValidatorChange = memoChange(r.p, memoChangeKinds[rng.Intn(len(memoChangeKinds))], nil)
		}
		b, err := t.BuildBlock(o)
		if err != nil {
			return harness("build honest block: %v", err)
		}
		s.hist = nil
		if !s.offerBoth(fmt.Sprintf("honest%d", i), b) && r.dead == "" {
			return harness("honest block at height %d refused by both nodes", b.Header.Height)
		}
	}
	if r.dead != "" {
		return strings.Join(s.out, " "), s.fails
	}
	s.hist = nil
	cur, err := t.BFTParams(t.Height() + 1)
	if err != nil {
		return harness("parameters of the next height: %v", err)
	}
	avoid := [][]byte{cur.ValidatorsHash()}
	// change B of F / Y
	vcB := memoChange(r.p, a["b"], avoid)
	if vcB == nil {
		return harness("no change of kind %s", a["b"])
	}
	hashB, _ := node.ValidatorsHashOf(vcB.Validators, vcB.CertificateThreshold)
	avoid = append(avoid, hashB)
	// rejected candidates
	type outcome struct{ vhash, eventRoot, stateRoot []byte }
	var xs []outcome
	for i, xk := range strings.Split(a["x"], ",") {
		vcA := memoChange(r.p, a["a"], avoid)
		if vcA == nil {
			return harness("no change of kind %s", a["a"])
		}
		hashA, _ := node.ValidatorsHashOf(vcA.Validators, vcA.CertificateThreshold)
		if !bytes.Equal(hashA, cur.ValidatorsHash()) {
			avoid = append(avoid, hashA)
		}
		o := node.BlockOpts{SlotsAhead: 1 + rng.Intn(2), ValidatorChange: vcA}
		o.Txs, o.AfterEvents = r.content(1+rng.Intn(2), 1+rng.Intn(2))
		x0, err := t.BuildBlock(o) // the valid block with X's content: its roots are X's outcome
		if err != nil {
			return harness("build X: %v", err)
		}
		xs = append(xs, outcome{hashA, x0.Header.EventRoot, x0.Header.StateRoot})
		label := fmt.Sprintf("X%d-%s", i, xk)
		switch xk {
		case "forge":
			s.forge(label, x0, vcA)
			continue
		case "stateroot":
			o.Mutate = func(b *blockchain.Block) { b.Header.StateRoot = rnd32(rng) }
		case "eventroot":
			o.Mutate = func(b *blockchain.Block) { b.Header.EventRoot = rnd32(rng) }
		case "vhash":
			o.Mutate = func(b *blockchain.Block) { b.Header.ValidatorsHash = rnd32(rng) }
		case "vhash-old":
			old := append([]byte{}, cur.ValidatorsHash()...)
			if bytes.Equal(old, hashA) { // a precommit-threshold change keeps the hash
				old = rnd32(rng)
			}
			o.Mutate = func(b *blockchain.Block) { b.Header.ValidatorsHash = old }
		case "failafter":
			o.FailHook = node.HookAfterTxs
		case "failcommit":
			o.FailHook = node.HookCommit
		default:
			return harness("unknown kind of rejected candidate %q", xk)
		}
		x, err := t.BuildBlock(o)
		if err != nil {
			return harness("build X: %v", err)
		}
		s.offerRejected(label, x)
		if r.dead != "" {
			return strings.Join(s.out, " "), s.fails
		}
	}
	// F: executes to B, carries a field of X's outcome
	oB := node.BlockOpts{SlotsAhead: 1 + rng.Intn(2), ValidatorChange: vcB}
	oB.Txs, oB.AfterEvents = r.content(rng.Intn(3), rng.Intn(2))
	y, err := t.BuildBlock(oB)
	if err != nil {
		return harness("build Y: %v", err)
	}
	for i, x := range xs {
		for _, f := range []struct {
			name string
			skip bool
			mut  func(b *blockchain.Block)
		}{
			{"vhash", bytes.Equal(x.vhash, y.Header.ValidatorsHash), func(b *blockchain.Block) { b.Header.ValidatorsHash = append([]byte{}, x.vhash...) }},
			{"event", bytes.Equal(x.eventRoot, y.Header.EventRoot), func(b *blockchain.Block) { b.Header.EventRoot = append([]byte{}, x.eventRoot...) }},
			{"state", bytes.Equal(x.stateRoot, y.Header.StateRoot), func(b *blockchain.Block) { b.Header.StateRoot = append([]byte{}, x.stateRoot...) }},
		} {
			if f.skip {
				continue
			}
			o := oB
			o.Mutate = f.mut
			fb, err := t.BuildBlock(o)
			if err != nil {
				return harness("build F: %v", err)
			}
			if s.offerBoth(fmt.Sprintf("F%d-%s", i, f.name), fb) && r.dead == "" {
				// both nodes appended a block the construction meant to be invalid: the reference has spoken above
				r.dead = "F applied by both"
			}
			if r.dead != "" {
				return strings.Join(s.out, " "), s.fails
			}
		}
	}
	if !s.offerBoth("Y", y) && r.dead == "" {
		s.fail("c03-memo-valid-refused", "Y, the valid block of this height, is refused by the node and by the fresh node")
		r.dead = "Y refused by both"
	}
	return strings.Join(s.out, " "), s.fails
}

func (memoProp) RunImpl(c corr.Case) (outs []string, fails []corr.Fail) {
	r := &memoRunner{}
	defer r.close()
	for i, op := range c.Ops {
		out, fs := func() (out string, fs []corr.Fail) {
			defer func() {
				if p := recover(); p != nil {
					out = "panic"
					fs = append(fs, corr.Fail{Sig: "c03-memo-harness-panic", Detail: fmt.Sprintf("%s: %v", op, p)})
					r.dead = "panic"
				}
			}()
			w := strings.Fields(op)
			if len(w) == 0 {
				return "bad-op", nil
			}
			a := kvs(w[1:])
			switch {
			case w[0] == "reset":
				if err := r.reset(a); err != nil {
					r.close()
					return "bad-reset", []corr.Fail{{Sig: "c03-memo-harness", Detail: err.Error()}}
				}
				return "ok", nil
			case w[0] == "triple" && r.n != nil:
				if r.dead != "" {
					return "skipped", nil
				}
				return r.triple(a)
			}
			return "bad-op", nil
		}()
		for j := range fs {
			fs[j].Op = i
		}
		outs = append(outs, out)
		fails = append(fails, fs...)
	}
	return outs, fails
}

func (memoProp) Classify(c corr.Case, out []string) string {
	seen := map[string]bool{}
	var kinds []string
	for i, op := range c.Ops {
		if i >= len(out) || !strings.HasPrefix(op, "triple ") || !strings.Contains(out[i], "Y=applied") {
			continue
		}
		a := kvs(strings.Fields(op)[1:])
		k := "x=" + a["x"] + ",a=" + a["a"] + ",b=" + a["b"]
		if !seen[k] {
			seen[k] = true
			kinds = append(kinds, k)
		}
	}
	return strings.Join(kinds, "+")
}
