package c03

import (
	"crypto/sha256"
	"fmt"
	"sort"

	"verifharness/node"
)

// volatileState renders the in-memory state of the Executer that influences LATER decisions and is not
// part of any database dump: the receive time of the tip (input of the LIP-0014 tie-break rule), the
// syncing flag (blocks arriving while it is set are dropped), the certificate pool (source of the next
// aggregate commit) and the length of the process queue. "A block failing any rule leaves chain, consensus
// state, finalized height and emitted events exactly as they were" covers it: a rejected block that moves
// the receive time changes which competing block wins the tie break afterwards.
func volatileState(n *node.Node) string {
	lr := "nil"
	if t := n.Exec.VerifLastBlockReceived(); t != nil {
		lr = fmt.Sprint(t.UnixNano())
	}
	digest := func(encs [][]byte) string {
		sort.Slice(encs, func(i, j int) bool { return string(encs[i]) < string(encs[j]) })
		h := sha256.New()
		for _, e := range encs {
			h.Write(e)
			h.Write([]byte{0xff})
		}
		return fmt.Sprintf("%d:%x", len(encs), h.Sum(nil)[:6])
	}
	ng, g := n.CertPool().VerifAll()
	var a, b [][]byte
	for _, c := range ng {
		a = append(a, c.Encode())
	}
	for _, c := range g {
		b = append(b, c.Encode())
	}
	return fmt.Sprintf("lastBlockReceived=%s syncing=%v queue=%d pool=%s/%s", lr, n.Exec.Syncing(), n.Exec.VerifProcessQueueLen(), digest(a), digest(b))
}
