package c03

import (
	"bytes"
	"fmt"
	"math/rand"
	"sort"
	"sync"
	"time"

	"github.com/LiskHQ/lisk-engine/pkg/blockchain"
	"github.com/LiskHQ/lisk-engine/pkg/labi"

	"verifharness/corr"
	"verifharness/node"
)

// known collects acceptances of candidates that violate a rule the repository is known not to
// enforce (expectation K); Extra reports each signature once.
var known = struct {
	sync.Mutex
	first map[string]string
	count map[string]int
}{first: map[string]string{}, count: map[string]int{}}

func noteKnown(sig, detail string) {
	known.Lock()
	defer known.Unlock()
	if _, ok := known.first[sig]; !ok {
		known.first[sig] = detail
	}
	known.count[sig]++
}

// Extra: (1) a directed scenario for the next-BFT-parameters bound of aggregate commits, (2) the
// wall-clock boundary of the "non-future slot" rule on a node whose genesis is a few slots old,
// (3) the unenforced-rule acceptances collected by the runner.
func (prop) Extra(rng *rand.Rand, tier string) corr.ExtraResult {
	res := corr.ExtraResult{Notes: map[string]any{}}
	evals := 0
	if err := scenarioParamsBound(rng, &evals, &res); err != nil {
		res.Fails = append(res.Fails, corr.Fail{Sig: "c03-extra-scenario", Detail: "params bound: " + err.Error(), Op: -1})
	}
	rounds := 2
	if tier == "thorough" {
		rounds = 10
	}
	for i := 0; i < rounds; i++ {
		if err := scenarioClock(rng, &evals, &res); err != nil {
			res.Fails = append(res.Fails, corr.Fail{Sig: "c03-extra-scenario", Detail: "clock: " + err.Error(), Op: -1})
		}
	}
	known.Lock()
	var sigs []string
	for s := range known.first {
		sigs = append(sigs, s)
	}
	sort.Strings(sigs)
	for _, s := range sigs {
		res.Fails = append(res.Fails, corr.Fail{Sig: s, Detail: fmt.Sprintf("%s [%d occurrence(s) in this run]", known.first[s], known.count[s]), Op: -1})
		res.Samples = append(res.Samples, s+": "+known.first[s])
	}
	known.Unlock()
	res.Evaluations = evals
	res.Notes["ac_bound_modelled_as_enforced"] = acBoundEnforced
	return res
}

// rejectedCleanly processes a block that must be rejected and checks that nothing changed.
func rejectedCleanly(n *node.Node, b *blockchain.Block) (rejected bool, trace string) {
	d0, bft0, fin0, tip0 := n.DumpDBString(), n.BFTDump(), n.Finalized(), append([]byte{}, n.Tip().Header.ID...)
	n.DrainEvents()
	r := n.ProcessResult(b)
	evs := n.DrainEvents()
	if r.Applied || r.Err == nil {
		return false, ""
	}
	if n.DumpDBString() != d0 || n.BFTDump() != bft0 || n.Finalized() != fin0 || !bytes.Equal(tip0, n.Tip().Header.ID) || len(evs) != 0 {
		return true, "state changed"
	}
	return true, ""
}

func scenarioParamsBound(rng *rand.Rand, evals *int, res *corr.ExtraResult) error {
	n, err := node.New(node.Config{NumValidators: 4, ExtraValidators: 1, BatchSize: 4, Seed: rng.Int63n(1 << 40)})
	if err != nil {
		return err
	}
	defer n.Close()
	if _, err := n.Extend(14); err != nil {
		return err
	}
	// replace validator 0 by the extra key holder
	next := []*labi.Validator{n.Validators[4].Labi(1)}
	for _, v := range n.Validators[1:4] {
		next = append(next, v.Labi(1))
	}
	vc := &node.ValidatorChange{Validators: next, PrecommitThreshold: 3, CertificateThreshold: 3}
	cb, err := n.BuildBlock(node.BlockOpts{ValidatorChange: vc})
	if err != nil {
		return err
	}
	if err := n.Process(cb); err != nil {
		return err
	}
	k := cb.Header.Height + 1 // activation height of the new parameters
	for i := 0; i < 60; i++ {
		if _, mhpc, _ := n.BFTHeights(); mhpc >= k {
			break
		}
		if _, err := n.Extend(1); err != nil {
			return err
		}
	}
	_, mhpc, mhc := n.BFTHeights()
	if mhpc < k || mhc+2 > k {
		return fmt.Errorf("scenario not reached: mhpc=%d mhc=%d change activates at %d", mhpc, mhc, k)
	}
	params, err := n.BFTParams(k)
	if err != nil {
		return err
	}
	var signers []*node.Validator
	for _, v := range params.Validators() {
		signers = append(signers, n.ValidatorByAddress(v.Address()))
	}
	// the aggregate commit certifies height k although heights <= k-1 (the last one of the outgoing
	// validator set) are not certified yet: LIP-0061 requires height <= k-1 here
	ac, err := n.ReferenceAggregate(k, signers)
	if err != nil {
		return err
	}
	b, err := n.BuildBlock(node.BlockOpts{AggregateCommit: ac})
	if err != nil {
		return err
	}
	*evals++
	rejected, trace := rejectedCleanly(n, b)
	switch {
	case !rejected:
		noteKnown("c03-unenforced:aggregate-commit-next-params-bound", fmt.Sprintf("directed scenario: BFT parameters change at height %d, maxHeightCertified=%d, maxHeightPrecommitted=%d; block %d with an aggregate commit for height %d (beyond the parameter change) was appended", k, mhc, mhpc, b.Header.Height, k))
	case trace != "":
		res.Fails = append(res.Fails, corr.Fail{Sig: "c03-rejected-block-left-traces", Detail: "params bound scenario: " + trace, Op: -1})
	}
	// the admissible certificate (height k-1, outgoing validator set) is accepted
	if acOK := aggregateOf(n, k-1); acOK != nil && rejected {
		ok, err := n.BuildBlock(node.BlockOpts{AggregateCommit: acOK})
		if err == nil {
			*evals++
			if r := n.ProcessResult(ok); r.Err != nil || !r.Applied {
				res.Fails = append(res.Fails, corr.Fail{Sig: "c03-valid-rejected:aggregate-commit", Detail: fmt.Sprintf("aggregate commit for height %d (last block before the parameter change): %v", k-1, r.Err), Op: -1})
			}
		}
	}
	return nil
}

func aggregateOf(n *node.Node, h uint32) *blockchain.AggregateCommit {
	params, err := n.BFTParams(h)
	if err != nil {
		return nil
	}
	var signers []*node.Validator
	for _, v := range params.Validators() {
		if kh := n.ValidatorByAddress(v.Address()); kh != nil {
			signers = append(signers, kh)
		}
	}
	ac, err := n.ReferenceAggregate(h, signers)
	if err != nil {
		return nil
	}
	return ac
}

// scenarioClock: genesis a few slots ago, long slots. A block in the current slot (even with a
// timestamp ahead of the clock inside that slot) is valid, a block in the next slot is a future block.
func scenarioClock(rng *rand.Rand, evals *int, res *corr.ExtraResult) error {
	bt := uint32(600 + rng.Intn(3000))
	now := uint32(time.Now().Unix())
	past := uint32(2 + rng.Intn(4))
	genesis := now - past*bt - uint32(rng.Intn(int(bt-20))) - 10 // current slot = past, at least 10 s old and 10 s to go
	n, err := node.New(node.Config{NumValidators: 3, BatchSize: 3, BlockTime: bt, GenesisTimestamp: genesis, Seed: rng.Int63n(1 << 40)})
	if err != nil {
		return err
	}
	defer n.Close()
	slotNow := func() uint32 { return (uint32(time.Now().Unix()) - genesis) / bt }
	s0 := slotNow()
	if _, err := n.Extend(1); err != nil { // slot 1
		return err
	}
	cur := int(s0) - 1 // slots ahead of the tip (slot 1) that reach the current slot
	check := func(label string, o node.BlockOpts, wantReject bool) {
		b, err := n.BuildBlock(o)
		if err != nil {
			return
		}
		*evals++
		rejected, trace := rejectedCleanly(n, b)
		if slotNow() != s0 {
			return // the clock crossed a slot boundary: inconclusive
		}
		switch {
		case wantReject && !rejected:
			res.Fails = append(res.Fails, corr.Fail{Sig: "c03-unenforced:slot", Detail: label + ": future block appended", Op: -1})
		case wantReject && trace != "":
			res.Fails = append(res.Fails, corr.Fail{Sig: "c03-rejected-block-left-traces", Detail: label + ": " + trace, Op: -1})
		case !wantReject && rejected:
			res.Fails = append(res.Fails, corr.Fail{Sig: "c03-valid-rejected:slot", Detail: label + ": block of the current slot rejected", Op: -1})
		}
	}
	check("next slot", node.BlockOpts{SlotsAhead: cur + 1}, true)
	check("slot after next", node.BlockOpts{SlotsAhead: cur + 2}, true)
	// accepted ones last (they move the tip)
	if cur >= 1 {
		check("current slot, last second", node.BlockOpts{SlotsAhead: cur, TimestampOffset: bt - 1}, false)
	}
	return nil
}
