package c03

import (
	"bytes"
	"fmt"
	"math/rand"
	"sort"
	"strconv"
	"strings"

	"github.com/LiskHQ/lisk-engine/pkg/blockchain"

	"verifharness/blsref"
	"verifharness/node"
)

// Aggregate commits signed by signer SUBSETS at arbitrary positions of the BLS-key-ordered validator
// list, on validator sets with unequal weights. The aggregate-commit rule of the property is "signed
// by validators of that height whose weight reaches the certificate threshold"; the weight that counts
// is the one of the FLAGGED validators. Every other sum an implementation could take by mistake —
// the first / last k positions for k signers, the number of signers, the weight of the validators
// that did NOT sign, the weights in generator-list order — is separated from it here by a candidate
// whose verdict differs under the two readings.
//
// Everything in this file is independent of pkg/crypto: bitmap and aggregate signature are built by
// harness/blsref straight from blst, the expectation comes from the weights summed here.

// keyedSet is the validator set of one height in ascending BLS key order.
type keyedSet struct {
	p         *planner
	height    uint32
	vals      []*node.Validator // key holders, ascending by BLS public key
	weights   []uint64
	genOrder  []uint64 // the same weights in the order of the stored BFT parameters
	threshold uint64
	msg       []byte
}

// keyedSet returns the set for the height (nil if a validator is no key holder of the harness, if the
// total weight does not fit a uint64, or if the height is not on the chain).
func (p *planner) keyedSet(h uint32) *keyedSet {
	params, err := p.n.BFTParams(h)
	if err != nil {
		return nil
	}
	hd, err := p.n.HeaderAt(h)
	if err != nil {
		return nil
	}
	ks := &keyedSet{p: p, height: h, threshold: params.CertificateThreshold(), msg: certificateMessage(p.n, hd)}
	type vw struct {
		v *node.Validator
		w uint64
	}
	var l []vw
	total := uint64(0)
	for _, v := range params.Validators() {
		kh := p.n.ValidatorByAddress(v.Address())
		if kh == nil || !bytes.Equal(kh.BLSPub, v.BLSKey()) || total+v.BFTWeight() < total {
			return nil
		}
		total += v.BFTWeight()
		l = append(l, vw{kh, v.BFTWeight()})
		ks.genOrder = append(ks.genOrder, v.BFTWeight())
	}
	sort.SliceStable(l, func(i, j int) bool { return bytes.Compare(l[i].v.BLSPub, l[j].v.BLSPub) < 0 })
	for _, x := range l {
		ks.vals = append(ks.vals, x.v)
		ks.weights = append(ks.weights, x.w)
	}
	if len(ks.vals) == 0 {
		return nil
	}
	return ks
}

// aggregate builds the aggregate commit signed by exactly the validators at the positions.
func (ks *keyedSet) aggregate(positions []int) *blockchain.AggregateCommit {
	if len(positions) == 0 {
		return nil
	}
	sigs := make([][]byte, len(positions))
	for i, pos := range positions {
		if sigs[i] = blsref.SignWith(ks.vals[pos].BLSPriv, ks.msg); sigs[i] == nil {
			return nil
		}
	}
	sig := blsref.Aggregate(sigs)
	if sig == nil {
		return nil
	}
	return &blockchain.AggregateCommit{Height: ks.height, AggregationBits: blsref.BitmapOf(len(ks.vals), positions), CertificateSignature: sig}
}

func (ks *keyedSet) weightOf(positions []int) uint64 {
	w := uint64(0)
	for _, p := range positions {
		w += ks.weights[p] // the total fits a uint64 (checked in keyedSet)
	}
	return w
}

// subsets enumerates the non-empty position sets (all of them up to 10 validators, a sample above).
func (ks *keyedSet) subsets(r *rand.Rand) [][]int {
	n := len(ks.vals)
	var res [][]int
	if n <= 10 {
		for mask := 1; mask < 1<<uint(n); mask++ {
			var pos []int
			for i := 0; i < n; i++ {
				if mask>>uint(i)&1 == 1 {
					pos = append(pos, i)
				}
			}
			res = append(res, pos)
		}
		return res
	}
	for k := 0; k < 600; k++ {
		var pos []int
		d := 1 + r.Intn(7)
		for i := 0; i < n; i++ {
			if r.Intn(8) < d {
				pos = append(pos, i)
			}
		}
		if len(pos) > 0 {
			res = append(res, pos)
		}
	}
	return res
}

// randomQuorum returns a random subset whose true weight reaches the threshold.
func (ks *keyedSet) randomQuorum(r *rand.Rand) []int {
	var pos []int
	w := uint64(0)
	for _, i := range r.Perm(len(ks.vals)) {
		pos = append(pos, i)
		w += ks.weights[i]
		if w >= ks.threshold && r.Intn(3) > 0 {
			break
		}
	}
	sort.Ints(pos)
	return pos
}

type subsetMutant struct {
	label, expect string
	positions     []int
}

// misreadings of "weight of the signers": name -> the sum an incorrect implementation would compare
// with the threshold for the signer set at the positions.
func (ks *keyedSet) misreadings(positions []int) map[string]uint64 {
	n, k := len(ks.vals), len(positions)
	sum := func(ws []uint64, from, to int) uint64 {
		s := uint64(0)
		for i := from; i < to && i < len(ws); i++ {
			s += ws[i]
		}
		return s
	}
	byGen := uint64(0)
	for _, p := range positions {
		if p < len(ks.genOrder) {
			byGen += ks.genOrder[p]
		}
	}
	shifted := uint64(0) // off by one position
	for _, p := range positions {
		shifted += ks.weights[(p+1)%n]
	}
	return map[string]uint64{
		"prefix":     sum(ks.weights, 0, k),                          // the first k positions for k signers
		"suffix":     sum(ks.weights, n-k, n),                        // the last k positions
		"count":      uint64(k),                                      // the number of signers
		"others":     sum(ks.weights, 0, n) - ks.weightOf(positions), // the validators that did not sign
		"gen-order":  byGen,                                          // weights taken in generator-list order
		"next-index": shifted,
	}
}

// subsetAlterations picks, for the current validator set, signer subsets that separate the true weight
// from every misreading: rejected ones (true weight below the threshold, the misread sum reaches it)
// and accepted ones (true weight reaches it, the misread sum does not), plus the subsets closest to
// the threshold from below and from above.
func (ks *keyedSet) subsetAlterations(r *rand.Rand) []subsetMutant {
	if len(ks.vals) < 2 {
		return nil
	}
	subs := ks.subsets(r)
	r.Shuffle(len(subs), func(a, b int) { subs[a], subs[b] = subs[b], subs[a] })
	thr := ks.threshold
	var res []subsetMutant
	var below, above []int // closest to the threshold
	var wBelow, wAbove uint64
	light := map[string][]int{}
	heavy := map[string][]int{}
	for _, pos := range subs {
		w := ks.weightOf(pos)
		if w < thr && (below == nil || w > wBelow) {
			below, wBelow = pos, w
		}
		if w >= thr && (above == nil || w < wAbove) {
			above, wAbove = pos, w
		}
		for name, m := range ks.misreadings(pos) {
			if w < thr && m >= thr && light[name] == nil {
				light[name] = pos
			}
			if w >= thr && m < thr && heavy[name] == nil {
				heavy[name] = pos
			}
		}
	}
	names := []string{"prefix", "suffix", "count", "others", "gen-order", "next-index"}
	seen := map[string]bool{}
	key := func(pos []int) string {
		b := make([]byte, len(pos))
		for i, p := range pos {
			b[i] = byte(p)
		}
		return string(b)
	}
	// the label carries the failing input in readable form: signer positions in key order, their true
	// weight, the threshold and the misread sum
	describe := func(label string, pos []int, name string) string {
		ps := make([]string, len(pos))
		for i, x := range pos {
			ps[i] = strconv.Itoa(x)
		}
		d := fmt.Sprintf("%s[signers@%s,weight=%d,threshold=%d", label, strings.Join(ps, "+"), ks.weightOf(pos), thr)
		if name != "" {
			d += fmt.Sprintf(",%s-sum=%d", name, ks.misreadings(pos)[name])
		}
		return d + "]"
	}
	for _, name := range names {
		if pos := light[name]; pos != nil && !seen["R"+key(pos)] {
			seen["R"+key(pos)] = true
			res = append(res, subsetMutant{describe("ac-light-subset-vs-"+name, pos, name), expReject, pos})
		}
	}
	// accepted candidates cost the runner a rebuild of the node: one per probe (the first misreading
	// that has one; the prefix reading first), and the minimal quorum
	for _, name := range names {
		if pos := heavy[name]; pos != nil {
			seen["A"+key(pos)] = true
			res = append(res, subsetMutant{describe("ac-heavy-subset-vs-"+name, pos, name), expAccept, pos})
			break
		}
	}
	if below != nil && !seen["R"+key(below)] {
		res = append(res, subsetMutant{describe("ac-subset-just-below-threshold", below, ""), expReject, below})
	}
	if above != nil && !seen["A"+key(above)] && len(above) < len(ks.vals) {
		res = append(res, subsetMutant{describe("ac-subset-minimal-quorum", above, ""), expAccept, above})
	}
	return res
}
