package c03

// Pseudo-property C03PATHS (run as part of property C03 through `also`, no model): "EVERY path that
// appends a block enforces EVERY rule".
//
// C03's own candidates enter through Executer.process on the valid-successor branch (and through
// Block.Validate + processValidated called by the harness, which only IMITATES what the synchronisers
// do). Here the single-alteration family of plan.go (`planner.mutants`, ~95 alterations of a valid
// successor) travels through the other real entry paths of a block:
//
//	process    Executer.process of an announced block that lies on a different chain: Syncer.Sync chooses
//	           the fast or the block synchroniser, which download from a peer and call processValidated
//	fast       fastSyncer.Sync directly (downloadAndValidate, deleteTillCommonBlock, processor, restoreBlocks:
//	           the temporary blocks are applied again when a downloaded block fails)
//	block      blockSyncer.Sync directly (downloadAndProcess)
//	tie        Executer.process on the tie-break branch (wall-clock aligned slots of 10^7 s as in the C04
//	           tie-break cases): the tip is deleted and the received block applied in its place
//
// The peer is a scripted libp2p host on loopback that serves the chain P (same genesis and keys as the
// requester, fork point F) in which exactly ONE block - the first, a middle one, the LAST (= the block that
// was announced and triggered the synchronisation) or the only one - carries one alteration. Alterations
// that leave the header untouched (payload / assets altered under the header the requester already knows,
// and the two-faced blocks below) are served under the honestly announced header: announced block and
// served block have the same block id.
//
// Two-faced blocks (not in the table of plan.go, a single candidate cannot express them): the generator
// of the slot signs ONE header whose transactionRoot (assetRoot) commits to payload A while every other
// field (state root, event root, ...) is the result of executing payload B. The peer announces (header, A)
// - which passes Block.Validate - and serves (header, B) - which passes every header rule and executes to
// the roots of the header: only the comparison of the payload with the transactionRoot / assetRoot, i.e.
// Block.Validate on the DOWNLOADED object, refuses it.
//
// Oracles (model-free; the reference is facts.go - own Merkle roots, static transaction rules, slot and
// generator arithmetic, Ed25519 from the standard library - plus harness/blsref for aggregate commits):
//
//	c03-path-appended-invalid:<rule>   a block on the requester's chain (read back from its database) violates
//	                                   the rule, judged on a twin node that holds exactly the blocks below it
//	c03-path-main-path-rejects         the twin, given the requester's chain block by block through
//	                                   Executer.process (the path C03 compares with the Lean model), refuses one
//	c03-path-altered-block-appended    the served altered block is on the chain (byte comparison)
//	c03-path-chain-not-as-specified    after a refused block the chain is neither the original one nor an honest
//	                                   prefix of the peer's chain below the altered block
//	c03-path-consensus-state-differs   BFT store differs from the twin's (same chain, main path)
//	c03-path-application-state-differs application state differs from the twin's
//	c03-path-cache-differs             cached tip differs from the stored block of that height
//	c03-path-rejected-block-left-traces  the chain is the original one after a refused block, but the executer's
//	                                   volatile state (receive time of the tip, syncing flag, certificate pool,
//	                                   process queue; volatile.go) changed
//	c03-path-honest-chain-not-adopted  an honest (or harmlessly altered) better chain was not adopted (two runs)
//	c03-path-hang / c03-path-panic     the path did not return / panicked
//
// Ops:  reset nv=<n> seed=<s> now=<unix> F=<f> Q=<q> P=<p> tie=<0|1>
//	path via=<process|fast|block|tie> pos=<height of the altered block> alt=<label|none>

import (
	"bytes"
	"context"
	"errors"
	"fmt"
	"math/rand"
	"sort"
	"strconv"
	"strings"
	"sync"
	"time"

	"github.com/LiskHQ/lisk-engine/pkg/blockchain"
	"github.com/LiskHQ/lisk-engine/pkg/codec"
	lsync "github.com/LiskHQ/lisk-engine/pkg/consensus/sync"
	"github.com/LiskHQ/lisk-engine/pkg/p2p"

	"verifharness/corr"
	"verifharness/node"
)

type pathsProp struct{}

func init() { corr.Register(pathsProp{}) }

func (pathsProp) ID() string                 { return "C03PATHS" }
func (pathsProp) NoModel() bool              { return true }
func (pathsProp) Parallel() int              { return 4 }
func (pathsProp) CaseTimeout() time.Duration { return 5 * time.Minute }

const (
	pathWatchdog     = 25 * time.Second
	pathTieBlockTime = 10_000_000
)

// ---- scenario worlds ----

type pathKey struct {
	nv, F, Q, P, pos int
	seed             int64
	now              uint32
	tie              bool
	sb               int // number of standby validators (BFT weight 0) among the nv genesis validators
}

func (k pathKey) resetLine() string {
	s := fmt.Sprintf("reset nv=%d seed=%d now=%d F=%d Q=%d P=%d tie=%s", k.nv, k.seed, k.now, k.F, k.Q, k.P, b01(k.tie))
	if k.sb > 0 {
		s += fmt.Sprintf(" sb=%d", k.sb)
	}
	return s
}

// pathWorld holds the blocks of one scenario geometry with the alterations of the block of height pos.
type pathWorld struct {
	key    pathKey
	cfg    caseCfg
	once   sync.Once
	err    error
	common []*blockchain.Block // heights 1..F
	qOwn   []*blockchain.Block // the requester's own blocks F+1..Q
	pOwn   []*blockchain.Block // the peer's honest blocks F+1..P
	tieTip *blockchain.Block   // tie world: the tip T (slot before the wall-clock slot) competing with pOwn[0]
	muts   []mutant            // alterations of the peer's block of height pos
	faces  map[string]*blockchain.Block
	fam    map[string]string // label -> family
}

var pathWorlds = struct {
	sync.Mutex
	m map[pathKey]*pathWorld
}{m: map[pathKey]*pathWorld{}}

func worldFor(k pathKey) (*pathWorld, error) {
	pathWorlds.Lock()
	w, ok := pathWorlds.m[k]
	if !ok {
		if len(pathWorlds.m) > 24 {
			pathWorlds.m = map[pathKey]*pathWorld{}
		}
		w = &pathWorld{key: k}
		pathWorlds.m[k] = w
	}
	pathWorlds.Unlock()
	w.once.Do(w.build)
	return w, w.err
}

func (k pathKey) caseCfg() caseCfg {
	c := caseCfg{nv: k.nv, extra: 1, batch: k.nv + 1, seed: k.seed, blockTime: 10, now: k.now}
	c.weights = make([]uint64, k.nv)
	for i := range c.weights {
		c.weights[i] = 1
	}
	if k.sb > 0 {
		// standby validators at positions derived from the seed: they own their slots, they do not vote
		for _, i := range rand.New(rand.NewSource(k.seed ^ 0x5b)).Perm(k.nv)[:k.sb] {
			c.weights[i] = 0
		}
		c.batch = k.nv - k.sb + 1
	}
	if k.tie {
		// the wall clock lies in the middle of slot F+3: the tip T gets slot F+2, the competing block slot F+3
		c.blockTime = pathTieBlockTime
		slot := uint32(k.F + 3)
		c.genesisTS = k.now - slot*c.blockTime - c.blockTime/2 + uint32(k.seed%1000)
	} else {
		c.genesisTS = k.now - 1_000_000
		c.genesisTS -= c.genesisTS % c.blockTime
	}
	return c
}

func plainAssets(r *rand.Rand) []*blockchain.BlockAsset {
	return []*blockchain.BlockAsset{
		{Module: "random", Data: []byte{byte(r.Intn(256)), 1, 2}},
		{Module: "aux", Data: []byte{byte(r.Intn(256))}},
	}
}

func (w *pathWorld) build() {
	defer func() {
		if r := recover(); r != nil {
			w.err = fmt.Errorf("panic while building the scenario: %v", r)
		}
	}()
	k := w.key
	if k.F < 1 || k.pos <= k.F || k.pos > k.P || (!k.tie && (k.Q <= k.F || k.P <= k.Q)) || (k.tie && (k.P != k.F+1 || k.nv < 2)) {
		w.err = fmt.Errorf("bad geometry %+v", k)
		return
	}
	w.cfg = k.caseCfg()
	p, err := newPlanner(rand.New(rand.NewSource(k.seed)), w.cfg)
	if err != nil {
		w.err = err
		return
	}
	defer p.n.Close()
	a := p.n
	for h := 1; h <= k.F; h++ {
		o := p.randomOpts()
		if k.tie {
			o.SlotsAhead = 0 // one slot per block: the slots up to the wall clock are counted
		}
		b, err := p.buildHonest(&o)
		if err == nil {
			err = p.applyBlock("base", o.ValidatorChange, b)
		}
		if err != nil {
			w.err = fmt.Errorf("common block %d: %w", h, err)
			return
		}
		p.ops = p.ops[:0]
		w.common = append(w.common, b)
	}
	if !k.tie {
		// the requester's own blocks, built by a twin; the first one carries an extra event
		qn, err := node.New(w.cfg.nodeConfig())
		if err != nil {
			w.err = err
			return
		}
		defer qn.Close()
		for _, b := range w.common {
			if err := qn.Process(b); err != nil {
				w.err = fmt.Errorf("twin common: %w", err)
				return
			}
		}
		for i := 0; i < k.Q-k.F; i++ {
			first := i == 0
			bs, err := qn.Extend(1, func(_ int, o *node.BlockOpts) {
				if first {
					o.BeforeEvents = []*blockchain.Event{{Module: "fork", Name: "q", Data: []byte{0x71}, Topics: []codec.Hex{{0x71}}}}
				}
			})
			if err != nil {
				w.err = fmt.Errorf("requester block: %w", err)
				return
			}
			w.qOwn = append(w.qOwn, bs...)
		}
	}
	for h := k.F + 1; h <= k.P; h++ {
		o := p.randomOpts()
		tip := a.Tip().Header
		if k.tie {
			o.SlotsAhead = k.F + 3 - int(p.w.slotOf(tip.Timestamp))
			o.TimestampOffset = 0
		}
		if h == k.pos {
			// every alteration of the table must exist at this block: two transactions, two plain assets
			for len(o.Txs) < 2 {
				o.Txs = append(o.Txs, p.tx(node.TxOK, node.TxOK, 3))
			}
			if len(o.Assets) < 2 {
				o.Assets = plainAssets(p.rng)
			}
			o.ValidatorChange = nil
		}
		b0, err := p.buildHonest(&o)
		if err != nil {
			w.err = fmt.Errorf("peer block %d: %w", h, err)
			return
		}
		if h == k.pos {
			rng, nonce := p.rng, p.nonce
			p.rng, p.nonce = rand.New(rand.NewSource(k.seed*131+int64(k.pos))), 1_000_000
			w.muts = p.mutants(o, b0, false)
			w.twoFaced(p, o, b0)
			if k.tie {
				w.tieTip, err = a.BuildBlock(node.BlockOpts{SlotsAhead: o.SlotsAhead - 1})
				if err != nil || o.SlotsAhead < 2 {
					w.err = fmt.Errorf("tie tip: %v", err)
					return
				}
			}
			p.rng, p.nonce = rng, nonce
			w.fam = map[string]string{}
			for _, m := range w.muts {
				w.fam[m.label] = w.family(m, b0)
			}
		}
		if err := p.applyBlock("base", o.ValidatorChange, b0); err != nil {
			w.err = fmt.Errorf("peer block %d: %w", h, err)
			return
		}
		p.ops = p.ops[:0]
		w.pOwn = append(w.pOwn, b0)
	}
}

// twoFaced adds the two-faced alterations (see the file comment).
func (w *pathWorld) twoFaced(p *planner, o node.BlockOpts, b0 *blockchain.Block) {
	a := p.n
	tip := a.Tip().Header
	base := o
	base.SlotsAhead = int(p.w.slotOf(b0.Header.Timestamp) - p.w.slotOf(tip.Timestamp))
	base.Generator = a.ValidatorByAddress(b0.Header.GeneratorAddress)
	base.MaxHeightGenerated = node.U32(b0.Header.MaxHeightGenerated)
	w.faces = map[string]*blockchain.Block{}
	add := func(label string, mutate func(b *blockchain.Block), face func(served *blockchain.Block) *blockchain.Block) {
		oo := base
		oo.Mutate = mutate
		served, err := a.BuildBlock(oo)
		if err != nil {
			return
		}
		f := face(served)
		cp, err := node.CopyBlock(f)
		if err != nil {
			return
		}
		w.muts = append(w.muts, mutant{label: label, expect: expReject, b: served})
		w.faces[label] = cp
	}
	if len(b0.Transactions) > 0 {
		// header commits to the payload without its last transaction, everything else to the full payload
		add("payload-twoface-tx", func(b *blockchain.Block) {
			ids := [][]byte{}
			for _, tx := range b.Transactions[:len(b.Transactions)-1] {
				ids = append(ids, tx.ID)
			}
			b.Header.TransactionRoot = refMerkleRoot(ids)
		}, func(s *blockchain.Block) *blockchain.Block {
			return &blockchain.Block{Header: s.Header, Transactions: s.Transactions[:len(s.Transactions)-1], Assets: s.Assets}
		})
	}
	plain := -1
	for i, as := range b0.Assets {
		if as.Module != node.ScriptModule {
			plain = i
		}
	}
	if plain >= 0 {
		without := func(l []*blockchain.BlockAsset) []*blockchain.BlockAsset {
			res := append([]*blockchain.BlockAsset{}, l[:plain]...)
			return append(res, l[plain+1:]...)
		}
		add("asset-twoface", func(b *blockchain.Block) {
			enc := [][]byte{}
			for _, as := range without(b.Assets) {
				enc = append(enc, as.Encode())
			}
			b.Header.AssetRoot = refMerkleRoot(enc)
		}, func(s *blockchain.Block) *blockchain.Block {
			return &blockchain.Block{Header: s.Header, Transactions: s.Transactions, Assets: without(s.Assets)}
		})
	}
}

// refStaticOK restates Block.Validate with the reference functions of facts.go.
func refStaticOK(b *blockchain.Block) bool {
	h := b.Header
	if len(h.PreviousBlockID) != 32 || len(h.GeneratorAddress) != 20 || len(h.Signature) != 64 {
		return false
	}
	ids := make([][]byte, len(b.Transactions))
	for i, tx := range b.Transactions {
		if !refTxStaticValid(tx) {
			return false
		}
		ids[i] = sha(tx.Encode())
	}
	enc := make([][]byte, len(b.Assets))
	for i, as := range b.Assets {
		enc[i] = as.Encode()
	}
	return bytes.Equal(h.TransactionRoot, refMerkleRoot(ids)) && refAssets(b.Assets) == 0 && bytes.Equal(h.AssetRoot, refMerkleRoot(enc))
}

// family of an alteration: samehdr (the header is the honest, announced one - or a two-faced header -,
// only the payload differs), static (refused by the static rules), dynamic (refused by a rule that needs
// the chain state or the execution), harmless (every rule holds).
func (w *pathWorld) family(m mutant, b0 *blockchain.Block) string {
	switch {
	case m.expect == expAccept:
		return "harmless"
	case m.expect != expReject || m.injectInit || m.b == nil:
		return ""
	case w.faces[m.label] != nil || (bytes.Equal(m.b.Header.ID, b0.Header.ID) && !bytes.Equal(m.b.Encode(), b0.Encode())):
		return "samehdr"
	case !refStaticOK(m.b):
		return "static"
	}
	return "dynamic"
}

func (w *pathWorld) mutant(label string) *mutant {
	for i := range w.muts {
		if w.muts[i].label == label {
			return &w.muts[i]
		}
	}
	return nil
}

// served returns the peer's chain by height ([0] = nil for the genesis block, which is never served) with
// the alteration in place - the blocks after a block with a new id are linked to it again - and the block
// the peer announces.
func (w *pathWorld) served(m *mutant) (chain []*blockchain.Block, announced *blockchain.Block, err error) {
	chain = append([]*blockchain.Block{nil}, w.common...)
	chain = append(chain, w.pOwn...)
	if m != nil {
		honest := chain[w.key.pos]
		chain[w.key.pos] = m.b
		if !bytes.Equal(m.b.Header.ID, honest.Header.ID) {
			prev := m.b.Header.ID
			for h := w.key.pos + 1; h < len(chain); h++ {
				b, err := node.CopyBlock(chain[h])
				if err != nil {
					return nil, nil, err
				}
				b.Header.PreviousBlockID = append(codec.Hex{}, prev...)
				b.Init()
				chain[h], prev = b, b.Header.ID
			}
		}
	}
	announced = chain[len(chain)-1]
	if m != nil && w.key.pos == len(chain)-1 {
		if f := w.faces[m.label]; f != nil {
			announced = f
		} else if w.fam[m.label] == "samehdr" {
			announced = w.pOwn[len(w.pOwn)-1] // the honest block: same header, the payload the header commits to
		}
	}
	return chain, announced, nil
}

// ---- the scripted peer ----

type pathPeer struct {
	mu      sync.Mutex
	chain   []*blockchain.Block
	byID    map[string]int
	last    *blockchain.Block
	conn    *p2p.Connection
	served  int
	started bool // the requester's connection was started
}

func startPathPeer(chainID []byte, genesis *blockchain.Block, chain []*blockchain.Block, last *blockchain.Block) (*pathPeer, error) {
	pp := &pathPeer{chain: append([]*blockchain.Block{genesis}, chain[1:]...), byID: map[string]int{}, last: last}
	for h, b := range pp.chain {
		pp.byID[string(b.Header.ID)] = h
	}
	pp.conn = p2p.NewConnection(node.NopLogger(), &p2p.Config{ChainID: chainID, Addresses: []string{"/ip4/127.0.0.1/tcp/0"}})
	handlers := map[string]p2p.RPCHandler{
		lsync.RPCEndpointGetLastBlock: func(w p2p.ResponseWriter, r *p2p.Request) { w.Write(pp.last.Encode()) },
		lsync.RPCEndpointGetHighestCommonBlock: func(w p2p.ResponseWriter, r *p2p.Request) {
			req := &lsync.GetHighestCommonBlockRequest{}
			if r.Data == nil || req.Decode(r.Data) != nil {
				w.Error(errors.New("bad request"))
				return
			}
			best := -1
			for _, id := range req.IDs {
				if h, ok := pp.byID[string(id)]; ok && h > best {
					best = h
				}
			}
			if best < 0 {
				w.Write(nil)
				return
			}
			w.Write((&lsync.GetHighestCommonBlockResponse{ID: pp.chain[best].Header.ID}).Encode())
		},
		lsync.RPCEndpointGetBlocksFromID: func(w p2p.ResponseWriter, r *p2p.Request) {
			req := &lsync.GetBlocksFromIDRequest{}
			if r.Data == nil || req.Decode(r.Data) != nil {
				w.Error(errors.New("bad request"))
				return
			}
			h, ok := pp.byID[string(req.ID)]
			if !ok {
				w.Error(errors.New("unknown block"))
				return
			}
			to := h + lsync.VerifC19MaxBlocksPerResponse
			if to > len(pp.chain)-1 {
				to = len(pp.chain) - 1
			}
			res := append([]*blockchain.Block{}, pp.chain[h+1:to+1]...)
			pp.mu.Lock()
			pp.served += len(res)
			pp.mu.Unlock()
			w.Write((&lsync.GetBlocksFromIDResponse{Blocks: res}).Encode())
		},
	}
	for name, h := range handlers {
		if err := pp.conn.RegisterRPCHandler(name, h); err != nil {
			return nil, err
		}
	}
	if err := pp.conn.Start([]byte{}); err != nil {
		return nil, err
	}
	return pp, nil
}

// connectPair starts the requester's connection and connects it to the peer; returns when a request gets through.
func connectPair(q *node.Node, pp *pathPeer) error {
	q.Conn.VerifC19SetListen([]string{"/ip4/127.0.0.1/tcp/0"})
	if err := q.Conn.Start([]byte{}); err != nil {
		return err
	}
	pp.started = true
	addrs, err := pp.conn.MultiAddress()
	if err != nil || len(addrs) == 0 {
		return fmt.Errorf("peer address: %v", err)
	}
	info, err := p2p.AddrInfoFromMultiAddr(addrs[0])
	if err != nil {
		return err
	}
	if err := q.Conn.Connect(context.Background(), *info); err != nil {
		return err
	}
	for deadline := time.Now().Add(20 * time.Second); time.Now().Before(deadline); time.Sleep(5 * time.Millisecond) {
		for _, pid := range pp.conn.ConnectedPeers() {
			if pid == q.Conn.ID() {
				ctx, cancel := context.WithTimeout(context.Background(), time.Second)
				_, err := lsync.VerifC19RequestLastBlockHeader(ctx, q.Conn, pp.conn.ID())
				cancel()
				if err == nil {
					return nil
				}
			}
		}
	}
	return errors.New("the two hosts did not get connected")
}

// stopPair shuts both hosts down (abandoned after a while: a stream handler of pkg/p2p can block, C17).
func stopPair(q *node.Node, pp *pathPeer) {
	fin := make(chan struct{})
	go func() {
		defer close(fin)
		defer func() { _ = recover() }()
		if q != nil && q.Conn != nil && pp != nil && pp.started {
			_ = q.Conn.Stop()
		}
		if pp != nil && pp.conn != nil {
			_ = pp.conn.Stop()
		}
		if q != nil {
			q.Close()
		}
	}()
	select {
	case <-fin:
	case <-time.After(15 * time.Second):
	}
}

// ---- reference validity ----

// refViolations judges block b as successor of the tip of w.n (a node that holds exactly the blocks below
// b) with the reference of facts.go; it returns the violated rules of the property.
func refViolations(w *world, b *blockchain.Block, now uint32) []string {
	n := w.n
	h := b.Header
	tip := n.Tip().Header
	tok := strings.Fields(w.facts(b, false))
	if len(tok) != 27 {
		return []string{"harness-facts"}
	}
	var v []string
	bad := func(cond bool, rule string) {
		if cond {
			v = append(v, rule)
		}
	}
	bad(h.Version != 2, "version")
	bad(h.Height != tip.Height+1, "height")
	bad(!bytes.Equal(h.PreviousBlockID, tip.ID), "previous-block")
	bad(len(h.PreviousBlockID) != 32 || len(h.GeneratorAddress) != 20 || len(h.Signature) != 64, "static-lengths")
	if h.Timestamp < n.Cfg.GenesisTimestamp {
		bad(true, "slot")
	} else {
		bad(w.slotOf(h.Timestamp) <= w.slotOf(tip.Timestamp) || w.slotOf(h.Timestamp) > w.slotOf(now), "slot")
		g := w.slotGenerator(h.Height, h.Timestamp)
		bad(g == nil || !bytes.Equal(g.Address, h.GeneratorAddress), "generator")
	}
	bad(tok[14] != "1", "signature")
	mhp, mhpc, mhc := n.BFTHeights()
	bad(h.MaxHeightPrevoted != mhp, "max-height-prevoted")
	if ac := h.AggregateCommit; ac == nil {
		bad(true, "aggregate-commit")
	} else if len(ac.AggregationBits) == 0 && len(ac.CertificateSignature) == 0 {
		bad(ac.Height != mhc, "aggregate-commit")
	} else {
		bad(len(ac.AggregationBits) == 0 || len(ac.CertificateSignature) == 0 || ac.Height <= mhc || ac.Height > mhpc || tok[12] != "1", "aggregate-commit")
		bad(acBoundEnforced && ac.Height > nextParamsBound(n), "aggregate-commit-next-params-bound")
	}
	bad(strings.Contains(tok[15], "0"), "tx-static-validity")
	bad(tok[16] != "1", "transaction-root")
	bad(tok[17] != "0", "assets")
	bad(tok[18] != "1", "asset-root")
	if size, err := strconv.Atoi(tok[19]); err != nil || size > maxTxLen {
		bad(true, "payload-size")
	}
	bad(tok[20] != "1111", "application-failure")
	if tok[21] != "-" {
		for _, ve := range strings.Split(tok[21], ".") {
			bad(len(ve) != 2 || ve[0] != '0', "tx-verify-verdict")
			bad(len(ve) == 2 && (ve[1] == '0'+node.TxInvalid || ve[1] == '0'+node.TxError), "tx-execute-verdict")
		}
	}
	bad(tok[23] != "1", "validators-hash")
	if ne, err := strconv.Atoi(tok[24]); err != nil || ne > int(blockchain.MaxEventsPerBlock) {
		bad(true, "event-count")
	}
	bad(tok[25] != "1", "event-root")
	bad(tok[26] != "1", "state-root")
	sort.Strings(v)
	out := v[:0]
	for i, r := range v {
		if i == 0 || v[i-1] != r {
			out = append(out, r)
		}
	}
	return out
}

// trackGens records a generator-list change executed by the applied block (as planner.applyBlock does).
func (w *world) trackGens(b *blockchain.Block) {
	s, err := node.ScriptFromAssets(b.Assets)
	if err != nil || len(s.Validators) == 0 {
		return
	}
	g := genList{from: b.Header.Height + 1}
	for _, sv := range s.Validators {
		if kh := w.n.ValidatorByAddress(corr.UnHex(orDash(sv.Address))); kh != nil {
			g.vals = append(g.vals, kh)
			g.w = append(g.w, sv.BFTWeight)
		}
	}
	w.gens = append(w.gens, g)
}

// checkChain is the oracle on the requester's chain: every stored block is judged by the reference on a
// twin that holds exactly the blocks below it and is then given to the twin's main path.
func checkChain(cfg caseCfg, q *node.Node, what string) (fails []corr.Fail) {
	fail := func(sig, format string, a ...any) {
		fails = append(fails, corr.Fail{Sig: sig, Detail: what + ": " + fmt.Sprintf(format, a...)})
	}
	t, err := node.New(cfg.nodeConfig())
	if err != nil {
		fail("c03-path-harness", "twin: %v", err)
		return
	}
	defer t.Close()
	t.ABI.LogCalls = false
	w := &world{n: t, gens: []genList{genesisList(t, cfg.nv, cfg.weights)}}
	now := nowUnix()
	top := q.Height()
	for h := uint32(1); h <= top; h++ {
		stored, err := q.BlockAt(h)
		if err != nil {
			fail("c03-path-chain-unreadable", "block of height %d: %v", h, err)
			return
		}
		b, err := node.CopyBlock(stored)
		if err != nil {
			fail("c03-path-chain-unreadable", "block of height %d does not decode: %v", h, err)
			return
		}
		for _, rule := range refViolations(w, b, now) {
			fail("c03-path-appended-invalid:"+rule, "the block of height %d (id %s, %d transactions, %d assets) on the chain violates the rule; block %x", h, corr.Hex(b.Header.ID), len(b.Transactions), len(b.Assets), trunc(string(b.Encode()), 400))
		}
		if res := t.ProcessResult(b); res.Err != nil || !res.Applied {
			class := "not-applied"
			if res.Err != nil {
				class = classify(res.Err, t.ABI, 0)
			}
			fail("c03-path-main-path-rejects", "the block of height %d (id %s) on the chain is refused by Executer.process on a node holding the blocks below it: %s (%v)", h, corr.Hex(b.Header.ID), class, res.Err)
			return
		}
		w.trackGens(b)
	}
	if tipEnc, err := q.BlockAt(top); err == nil && !bytes.Equal(tipEnc.Encode(), q.Tip().Encode()) {
		fail("c03-path-cache-differs", "the cached tip of height %d is not the stored block of that height", top)
	}
	if a, b := q.BFTDump(), t.BFTDump(); a != b {
		fail("c03-path-consensus-state-differs", "same chain of height %d: BFT store %s, on the main path %s", top, trunc(a, 300), trunc(b, 300))
	}
	if a, b := q.ABI.String(), t.ABI.String(); a != b {
		fail("c03-path-application-state-differs", "same chain of height %d: application %s, on the main path %s", top, a, b)
	}
	return fails
}

// ---- runner ----

type pathRunner struct {
	key pathKey
	ok  bool
}

func kvs(w []string) map[string]string {
	m := map[string]string{}
	for _, t := range w {
		if i := strings.IndexByte(t, '='); i > 0 {
			m[t[:i]] = t[i+1:]
		}
	}
	return m
}

func parsePathReset(w []string) (pathKey, bool) {
	m := kvs(w)
	var k pathKey
	var err [7]error
	k.nv, err[0] = strconv.Atoi(m["nv"])
	k.seed, err[1] = strconv.ParseInt(m["seed"], 10, 64)
	now, e := strconv.ParseUint(m["now"], 10, 32)
	k.now, err[2] = uint32(now), e
	k.F, err[3] = strconv.Atoi(m["F"])
	k.Q, err[4] = strconv.Atoi(m["Q"])
	k.P, err[5] = strconv.Atoi(m["P"])
	k.tie = m["tie"] == "1"
	if s, ok := m["sb"]; ok {
		if k.sb, e = strconv.Atoi(s); e != nil || k.sb < 0 || k.sb > k.nv-2 {
			return k, false
		}
	}
	for _, e := range err {
		if e != nil {
			return k, false
		}
	}
	return k, k.nv >= 1 && k.nv <= 12 && k.P <= 300
}

func chainIDsOf(n *node.Node) [][]byte {
	res := [][]byte{}
	for h := uint32(0); h <= n.Height(); h++ {
		hd, err := n.HeaderAt(h)
		if err != nil {
			res = append(res, nil)
			continue
		}
		res = append(res, hd.ID)
	}
	return res
}

func sameIDs(a, b [][]byte) bool {
	if len(a) != len(b) {
		return false
	}
	for i := range a {
		if !bytes.Equal(a[i], b[i]) {
			return false
		}
	}
	return true
}

// runPath runs one `path` op; a run of an honest / harmless scenario that does not converge is repeated
// once (pkg/p2p can drop a response, C17).
func runPath(k pathKey, w []string) (string, []corr.Fail) {
	out, fails, retry := runPathOnce(k, w)
	if retry {
		out2, fails2, retry2 := runPathOnce(k, w)
		if !retry2 {
			return out2, fails2
		}
		fails = append(fails, corr.Fail{Sig: "c03-path-honest-chain-not-adopted", Detail: fmt.Sprintf("%s %s: two runs (%s / %s): the peer's chain satisfies every rule and has priority, the requester did not end on it", k.resetLine(), strings.Join(w, " "), out, out2)})
	}
	return out, fails
}

func runPathOnce(k pathKey, words []string) (out string, fails []corr.Fail, retry bool) {
	m := kvs(words)
	via, label := m["via"], m["alt"]
	pos, err := strconv.Atoi(m["pos"])
	if err != nil || (via != "process" && via != "fast" && via != "block" && via != "tie") || (via == "tie") != k.tie {
		return "bad-op", nil, false
	}
	k.pos = pos
	wd, err := worldFor(k)
	if err != nil && strings.Contains(err.Error(), "invalid block generator") {
		// the honest chain is built by the owners of the slots according to the APPLICATION's list (applist.go)
		return "setup-failed", []corr.Fail{{Sig: "c03-owner-block-rejected", Detail: k.resetLine() + ": the node refuses the block of the owner of the slot according to the application's validator list: " + err.Error()}}, false
	}
	if err != nil {
		return "setup-failed", []corr.Fail{{Sig: "c03-path-harness", Detail: "scenario: " + err.Error()}}, false
	}
	var mt *mutant
	fam := "honest"
	if label != "none" {
		if mt = wd.mutant(label); mt == nil || wd.fam[label] == "" {
			return "no-such-alteration", nil, false
		}
		fam = wd.fam[label]
	}
	what := fmt.Sprintf("%s | path via=%s pos=%d alt=%s (%s)", k.resetLine(), via, pos, label, fam)
	fail := func(sig, format string, a ...any) {
		fails = append(fails, corr.Fail{Sig: sig, Detail: what + ": " + fmt.Sprintf(format, a...)})
	}
	chain, announced, err := wd.served(mt)
	if err != nil {
		fail("c03-path-harness", "served chain: %v", err)
		return "setup-failed", fails, false
	}
	// the requester
	q, err := node.New(wd.cfg.nodeConfig())
	if err != nil {
		fail("c03-path-harness", "requester: %v", err)
		return "setup-failed", fails, false
	}
	q.ABI.LogCalls = false
	var pp *pathPeer
	hung := false
	defer func() {
		if !hung {
			stopPair(q, pp)
		}
	}()
	own := append(append([]*blockchain.Block{}, wd.common...), wd.qOwn...)
	if k.tie {
		own = append(own, wd.tieTip) // received right now: outside its slot
	}
	for _, b := range own {
		if res := q.ProcessResult(b); res.Err != nil || !res.Applied {
			fail("c03-path-harness", "own block %d: %v", b.Header.Height, res.Err)
			return "setup-failed", fails, false
		}
	}
	q.DrainEvents()
	before := chainIDsOf(q)
	volBefore := volatileState(q)
	var syncErr error
	mode := via
	prio := true // the peer's tip has priority over the own tip (fork choice: different chain)
	run := func(f func() error) bool {
		done := make(chan error, 1)
		go func() {
			defer func() {
				if r := recover(); r != nil {
					done <- fmt.Errorf("panic: %v", r)
				}
			}()
			done <- f()
		}()
		select {
		case syncErr = <-done:
			return true
		case <-time.After(pathWatchdog):
			hung = true
			fail("c03-path-hang", "did not return within %s", pathWatchdog)
			return false
		}
	}
	if via == "tie" {
		cand := announced
		if mt != nil {
			cand = mt.b
		}
		fc := q.ForkChoice(cand)
		mode = "tie:" + fc
		if !run(func() error { return q.ProcessResult(cand).Err }) {
			return "timeout", fails, false
		}
	} else {
		pp, err = startPathPeer(q.Cfg.ChainID, q.Genesis, chain, chain[len(chain)-1])
		if err == nil {
			err = connectPair(q, pp)
		}
		if err != nil {
			fail("c03-path-harness", "hosts: %v", err)
			return "setup-failed", fails, false
		}
		q.AllowSync = true
		q.PeerID = pp.conn.ID()
		ann, err := node.CopyBlock(announced)
		if err != nil {
			fail("c03-path-harness", "announced block: %v", err)
			return "setup-failed", fails, false
		}
		sctx, err := q.Exec.VerifC04CreateSyncContext(context.Background(), ann, pp.conn.ID())
		if err != nil {
			fail("c03-path-harness", "sync context: %v", err)
			return "setup-failed", fails, false
		}
		sctx.Ctx = context.Background()
		syncer := q.Exec.VerifSyncer()
		prio = q.ForkChoice(chain[len(chain)-1]) == "differentChain"
		switch via {
		case "process":
			if fc := q.ForkChoice(ann); fc != "differentChain" {
				return "not-different " + fc, nil, false
			}
			switch {
			case syncer.VerifC19ShouldFastSync(sctx):
				mode = "process:fast"
			case syncer.VerifC19ShouldSync(sctx):
				mode = "process:block"
			default:
				mode = "process:none"
			}
			if !run(func() error { return q.ProcessResult(ann).Err }) {
				return "timeout", fails, false
			}
		case "fast":
			if !run(func() error { _, err := syncer.VerifC19FastSync(sctx); return err }) {
				return "timeout", fails, false
			}
		case "block":
			if !run(func() error { _, err := syncer.VerifC19BlockSync(sctx); return err }) {
				return "timeout", fails, false
			}
		}
	}
	var pe *node.PanicError
	if syncErr != nil && (errors.As(syncErr, &pe) || strings.HasPrefix(syncErr.Error(), "panic:")) {
		fail("c03-path-panic", "%v", syncErr)
	}
	q.DrainEvents()
	after := chainIDsOf(q)
	errFlag := 0
	if syncErr != nil {
		errFlag = 1
	}
	// where the chain ended: own (unchanged), peer:<h> (the peer's served chain up to height h), other
	where := "other"
	servedIDs := [][]byte{q.Genesis.Header.ID}
	for _, b := range chain[1:] {
		servedIDs = append(servedIDs, b.Header.ID)
	}
	if k.tie {
		servedIDs = append(append([][]byte{}, before[:len(before)-1]...), chain[len(chain)-1].Header.ID)
	}
	switch {
	case sameIDs(after, before):
		where = "own"
	case len(after) <= len(servedIDs) && sameIDs(after, servedIDs[:len(after)]):
		where = fmt.Sprintf("peer:%d", len(after)-1)
	}
	out = fmt.Sprintf("%s fam=%s err=%d end=%s", mode, fam, errFlag, where)

	// ---- oracles ----
	fails = append(fails, checkChain(wd.cfg, q, what)...)
	if mt != nil && mt.expect == expReject {
		if int(q.Height()) >= pos {
			if stored, err := q.BlockAt(uint32(pos)); err == nil && bytes.Equal(stored.Encode(), mt.b.Encode()) {
				fail("c03-path-altered-block-appended", "the served block of height %d with the alteration %s (violates: %s) is on the chain; the peer announced block %s", pos, label, ruleOf(label), corr.Hex(announced.Header.ID))
			}
		}
		// a refused block leaves the chain as it was when the block was offered: the original chain (nothing
		// applied, or everything restored) or the honest blocks below the altered one
		okEnd := where == "own"
		if strings.HasPrefix(where, "peer:") && len(after)-1 < pos && len(after)-1 >= k.F {
			okEnd = true
		}
		if vol := volatileState(q); where == "own" && vol != volBefore {
			fail("c03-path-rejected-block-left-traces", "the chain is the original one but the volatile executer state changed: %s -> %s", volBefore, vol)
		}
		if !okEnd {
			fail("c03-path-chain-not-as-specified", "the block of height %d carries the alteration %s; the chain ended at height %d (%s), neither the original chain (height %d) nor the honest blocks below the altered one", pos, label, len(after)-1, where, len(before)-1)
		}
	} else {
		// honest chain or harmless alteration: the peer's chain has priority and satisfies every rule
		want := fmt.Sprintf("peer:%d", len(servedIDs)-1)
		if !prio || mode == "process:none" || strings.HasPrefix(mode, "tie:") && mode != "tie:tieBreak" {
			want = where
		}
		if where != want || syncErr != nil {
			return out, fails, true
		}
	}
	return out, fails, false
}

func (pathsProp) RunImpl(c corr.Case) (outs []string, fails []corr.Fail) {
	r := &pathRunner{}
	for i, op := range c.Ops {
		out, fs := func() (out string, fs []corr.Fail) {
			defer func() {
				if p := recover(); p != nil {
					out = "panic"
					fs = append(fs, corr.Fail{Sig: "c03-path-harness-panic", Detail: fmt.Sprintf("%s: %v", op, p)})
				}
			}()
			w := strings.Fields(op)
			switch {
			case len(w) == 0:
				return "bad-op", nil
			case w[0] == "reset":
				r.key, r.ok = parsePathReset(w[1:])
				if !r.ok {
					return "bad-op", nil
				}
				return "ok", nil
			case w[0] == "path" && r.ok:
				return runPath(r.key, w[1:])
			}
			return "bad-op", nil
		}()
		for j := range fs {
			fs[j].Op = i
		}
		outs = append(outs, out)
		fails = append(fails, fs...)
	}
	return outs, fails
}

func (pathsProp) Classify(c corr.Case, out []string) string {
	kinds := []string{}
	for i, op := range c.Ops {
		if i < len(out) && strings.HasPrefix(op, "path ") && strings.Contains(out[i], " fam=") {
			kinds = append(kinds, strings.Join(strings.Fields(out[i]), ",")+",pos="+kvs(strings.Fields(op))["poskind"])
		}
	}
	return strings.Join(kinds, "+")
}

// ---- generator ----

func (pathsProp) Generate(rng *rand.Rand, tier string) []corr.Case {
	thorough := tier == "thorough"
	now := nowUnix()
	type geo struct {
		nv, F, Q, P int
		tie         bool
		vias        []string
		sb          int
	}
	// 2n = 8: own tip 2 above the fork point, the peer 3 further: the fast synchroniser
	// 2n = 6: the peer 8 above the own tip: the block synchroniser (Syncer.Sync chooses it for `process`)
	geos := []geo{
		{nv: 4, F: 5, Q: 7, P: 10, vias: []string{"process", "fast", "block"}},
		{nv: 3, F: 4, Q: 5, P: 13, vias: []string{"process", "block"}},
		{nv: 3, F: 4, tie: true, vias: []string{"tie"}},
		{nv: 5, F: 7, Q: 9, P: 11, vias: []string{"fast", "process"}, sb: 1}, // one of the five generators is a standby validator
	}
	if thorough {
		geos = append(geos, geo{nv: 5, F: 8, Q: 9, P: 12, vias: []string{"process", "fast", "block"}}, geo{nv: 2, F: 3, Q: 4, P: 5, vias: []string{"process", "fast", "block"}},
			geo{nv: 4, F: 6, tie: true, vias: []string{"tie"}}, geo{nv: 3, F: 2, Q: 3, P: 14, vias: []string{"process", "block"}})
	}
	var cases []corr.Case
	for gi, g := range geos {
		k := pathKey{nv: g.nv, seed: rng.Int63n(1 << 40), now: now, F: g.F, Q: g.Q, P: g.P, tie: g.tie, sb: g.sb}
		if g.tie {
			k.Q, k.P = g.F, g.F+1
		}
		reset := k.resetLine()
		add := func(via string, pos int, label, poskind string) {
			cases = append(cases, corr.Case{Ops: []string{reset, fmt.Sprintf("path via=%s pos=%d alt=%s poskind=%s", via, pos, label, poskind)}, Tag: "paths-" + via})
		}
		// positions: LAST (the announced block), first, a middle one
		type position struct {
			h    int
			kind string
		}
		positions := []position{{k.P, "last"}}
		if k.P-k.F >= 2 {
			positions = append(positions, position{k.F + 1, "first"})
		}
		if k.P-k.F >= 3 {
			positions = append(positions, position{k.F + 2 + rng.Intn(k.P-k.F-2), "middle"})
		}
		if k.P == k.F+1 {
			positions[0].kind = "only"
		}
		for pi, ps := range positions {
			kk := k
			kk.pos = ps.h
			wd, err := worldFor(kk)
			if err != nil {
				cases = append(cases, corr.Case{Ops: []string{reset, fmt.Sprintf("path via=%s pos=%d alt=none poskind=%s", g.vias[0], ps.h, ps.kind)}, Tag: "paths-setup"})
				continue
			}
			byFam := map[string][]string{}
			for _, m := range wd.muts {
				if f := wd.fam[m.label]; f != "" {
					byFam[f] = append(byFam[f], m.label)
				}
			}
			for _, l := range byFam {
				sort.Strings(l)
				rng.Shuffle(len(l), func(a, b int) { l[a], l[b] = l[b], l[a] })
			}
			pick := func(fam string, n int) []string {
				l := byFam[fam]
				if thorough {
					n *= 4
				}
				if n > len(l) {
					n = len(l)
				}
				return l[:n]
			}
			via := func(i int) string { return g.vias[i%len(g.vias)] }
			if ps.kind == "last" || ps.kind == "only" {
				// every alteration under the announced header, through every path of the geometry
				for _, l := range byFam["samehdr"] {
					for _, v := range g.vias {
						if v == "block" && !thorough && gi == 0 && rng.Intn(2) == 0 {
							continue
						}
						add(v, ps.h, l, ps.kind)
					}
				}
				for i, l := range pick("static", 3) {
					add(via(i), ps.h, l, ps.kind)
				}
				picked := map[string]bool{}
				for i, l := range pick("dynamic", 8) {
					add(via(i+pi), ps.h, l, ps.kind)
					picked[l] = true
				}
				for i, l := range pick("harmless", 3) {
					add(via(i), ps.h, l, ps.kind)
					picked[l] = true
				}
				// who may generate in the slot (applist.go): with standby validators in the list every variant of
				// the slot owner and the standby validator's own block travel through the paths, otherwise one
				for i, l := range append(append([]string{}, byFam["dynamic"]...), byFam["harmless"]...) {
					if strings.HasPrefix(l, "owner-") && !picked[l] && (g.sb > 0 || i%5 == 0) {
						add(via(i), ps.h, l, ps.kind)
					}
				}
				for _, v := range g.vias {
					add(v, ps.h, "none", ps.kind)
				}
			} else {
				for i, l := range pick("samehdr", 4) {
					add(via(i+1), ps.h, l, ps.kind)
				}
				for i, l := range pick("static", 2) {
					add(via(i), ps.h, l, ps.kind)
				}
				for i, l := range pick("dynamic", 5) {
					add(via(i+pi), ps.h, l, ps.kind)
				}
			}
		}
	}
	return cases
}
