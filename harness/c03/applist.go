package c03

import (
	"bytes"
	"fmt"
	"sort"
	"strconv"
	"strings"

	"github.com/LiskHQ/lisk-engine/pkg/blockchain"
	"github.com/LiskHQ/lisk-engine/pkg/labi"

	"verifharness/c03conv"
	"verifharness/corr"
	"verifharness/node"
)

// The APPLICATION decides the validator list (the mock application answers InitGenesisState with the
// configured genesis list and AfterTransactionsExecute with the list scripted in the block). This file keeps
// the application's side of the contract and states what the engine must do with it:
//
//   - every entry of the list, in the list's order, owns the slots congruent to its position - also an entry
//     with BFT weight 0 (a standby validator: own generator key, no BLS vote); the expected generator of a slot
//     is ALWAYS taken from this list, never from the generator keys the node stored;
//   - the honest successor is built by that owner (planner.buildHonest); a block by the owner according to a
//     list derived differently (standby entries dropped, sorted as the BFT validators are stored, sorted by BLS
//     key, reversed, shifted by one, the previous list ...) must be refused (ownerVariants, label `owner-…`);
//   - what the node stores for the next height is the application's list (storedOracle): generator keys =
//     every entry in order, BFT validators = exactly the voting entries, validatorsHash = own reference over
//     the voting entries, and the list the engine hands back to the application has the length of the list.
//
// Signatures: c03-wrong-slot-owner-accepted, c03-owner-block-rejected, c03-stored-generators-differ,
// c03-stored-bft-validators-differ, c03-stored-validators-hash-differs, c03-consensus-validators-differ.

// appWeights returns the application's weights of a tracked list (1 where the list predates the tracking).
func (g *genList) weightOf(i int) uint64 {
	if i < len(g.w) {
		return g.w[i]
	}
	return 1
}

// listAt returns the tracked list valid for a block at the height.
func (w *world) listAt(height uint32) *genList {
	var best *genList
	for i := range w.gens {
		g := &w.gens[i]
		if g.from <= height && (best == nil || g.from >= best.from) {
			best = g
		}
	}
	return best
}

// hasStandby: the application's list valid at the height has an entry with BFT weight 0.
func (w *world) hasStandby(height uint32) bool {
	if g := w.listAt(height); g != nil {
		for i := range g.vals {
			if g.weightOf(i) == 0 {
				return true
			}
		}
	}
	return false
}

// prevListAt returns the list that was valid before the one valid at the height (nil if there is none).
func (w *world) prevListAt(height uint32) *genList {
	cur := w.listAt(height)
	if cur == nil {
		return nil
	}
	var best *genList
	for i := range w.gens {
		g := &w.gens[i]
		if g.from < cur.from && (best == nil || g.from >= best.from) {
			best = g
		}
	}
	return best
}

func genesisList(n *node.Node, nv int, weights []uint64) genList {
	g := genList{from: 1, vals: append([]*node.Validator{}, n.Validators[:nv]...)}
	for i := 0; i < nv; i++ {
		wt := uint64(1)
		if i < len(weights) {
			wt = weights[i]
		}
		g.w = append(g.w, wt)
	}
	return g
}

func listOfChange(n *node.Node, from uint32, vals []*labi.Validator) genList {
	g := genList{from: from}
	for _, v := range vals {
		if kh := n.ValidatorByAddress(v.Address); kh != nil {
			g.vals = append(g.vals, kh)
			g.w = append(g.w, v.BFTWeight)
		}
	}
	return g
}

func (g *genList) String() string {
	var s []string
	for i, v := range g.vals {
		s = append(s, fmt.Sprintf("%s:w%d", v, g.weightOf(i)))
	}
	return "[" + strings.Join(s, " ") + "]"
}

// buildHonest builds the honest successor for the options: the block of the owner of the slot ACCORDING TO
// THE APPLICATION'S LIST (node.BuildBlock on its own would ask the node which generator it expects).
func (p *planner) buildHonest(o *node.BlockOpts) (*blockchain.Block, error) {
	if o.Generator == nil {
		if o.SlotsAhead == 0 {
			o.SlotsAhead = 1
		}
		tip := p.n.Tip().Header
		slot := p.w.slotOf(tip.Timestamp) + uint64(o.SlotsAhead)
		if g := p.w.listAt(tip.Height + 1); g != nil && len(g.vals) > 0 {
			o.Generator = g.vals[slot%uint64(len(g.vals))]
		}
	}
	return p.n.BuildBlock(*o)
}

type ownerVariant struct {
	label string
	v     *node.Validator
}

// ownerVariants lists, for a block at the height in the slot, the key holders that lists derived from the
// application's list in another way would assign to the slot - each one different from the true owner,
// one label per key holder.
func (w *world) ownerVariants(height uint32, slot uint64) []ownerVariant {
	g := w.listAt(height)
	if g == nil || len(g.vals) == 0 {
		return nil
	}
	owner := g.vals[slot%uint64(len(g.vals))]
	type wv struct {
		v *node.Validator
		w uint64
	}
	full := make([]wv, len(g.vals))
	for i, v := range g.vals {
		full[i] = wv{v, g.weightOf(i)}
	}
	var voting, standby []wv
	for _, x := range full {
		if x.w > 0 {
			voting = append(voting, x)
		} else {
			standby = append(standby, x)
		}
	}
	sorted := func(l []wv, less func(a, b *node.Validator) bool) []wv {
		s := append([]wv{}, l...)
		sort.SliceStable(s, func(i, j int) bool { return less(s[i].v, s[j].v) })
		return s
	}
	addrDesc := func(a, b *node.Validator) bool { return bytes.Compare(a.Address, b.Address) > 0 }
	addrAsc := func(a, b *node.Validator) bool { return bytes.Compare(a.Address, b.Address) < 0 }
	blsAsc := func(a, b *node.Validator) bool { return bytes.Compare(a.BLSPub, b.BLSPub) < 0 }
	rev := append([]wv{}, full...)
	for i, j := 0, len(rev)-1; i < j; i, j = i+1, j-1 {
		rev[i], rev[j] = rev[j], rev[i]
	}
	at := func(l []wv, s uint64) *node.Validator {
		if len(l) == 0 {
			return nil
		}
		return l[s%uint64(len(l))].v
	}
	cands := []ownerVariant{
		{"owner-of-list-without-standby", at(voting, slot)},                    // entries without BFT weight dropped from the generator list
		{"owner-of-stored-bft-validators", at(sorted(voting, addrDesc), slot)}, // the list SetBFTParameters stores (sorted by address, descending)
		{"owner-of-voting-then-standby", at(append(append([]wv{}, voting...), standby...), slot)},
		{"owner-of-list-sorted-by-address", at(sorted(full, addrAsc), slot)},
		{"owner-of-list-sorted-by-address-desc", at(sorted(full, addrDesc), slot)},
		{"owner-of-list-sorted-by-bls-key", at(sorted(full, blsAsc), slot)}, // the order of validatorsHash
		{"owner-of-reversed-list", at(rev, slot)},
		{"owner-of-next-position", at(full, slot+1)},
		{"owner-of-previous-position", at(full, slot+uint64(len(full))-1)},
	}
	if len(full) > 1 {
		cands = append(cands, ownerVariant{"owner-modulo-length-minus-one", full[slot%uint64(len(full)-1)].v})
	}
	if prev := w.prevListAt(height); prev != nil && len(prev.vals) > 0 {
		cands = append(cands, ownerVariant{"owner-of-previous-list", prev.vals[slot%uint64(len(prev.vals))]})
	}
	var res []ownerVariant
	seen := map[int]bool{owner.Index: true}
	for _, c := range cands {
		if c.v == nil || seen[c.v.Index] {
			continue
		}
		seen[c.v.Index] = true
		res = append(res, c)
	}
	return res
}

// ownerMutants: the block of each variant owner for the slot of b0 (built, signed and numbered as that key
// holder's own honest block), expected to be refused; plus, when the list has standby validators, the block of
// the next standby validator in its own slot, expected to be accepted.
func (p *planner) ownerMutants(base node.BlockOpts, b0 *blockchain.Block) []mutant {
	n := p.n
	tip := n.Tip().Header
	var res []mutant
	for _, ov := range p.w.ownerVariants(tip.Height+1, p.w.slotOf(b0.Header.Timestamp)) {
		oo := base
		oo.Generator, oo.SignWith, oo.MaxHeightGenerated = ov.v, nil, nil
		if b, err := n.BuildBlock(oo); err == nil && b != nil {
			res = append(res, mutant{label: ov.label, expect: expReject, b: b, vc: oo.ValidatorChange})
		}
	}
	if g := p.w.listAt(tip.Height + 1); g != nil {
		tipSlot := p.w.slotOf(tip.Timestamp)
		for d := 1; d <= len(g.vals); d++ {
			i := int((tipSlot + uint64(d)) % uint64(len(g.vals)))
			if g.weightOf(i) != 0 {
				continue
			}
			oo := base
			oo.SlotsAhead, oo.Generator, oo.SignWith, oo.MaxHeightGenerated = d, g.vals[i], nil, nil
			if b, err := n.BuildBlock(oo); err == nil && b != nil && p.w.slotOf(b.Header.Timestamp) <= p.w.slotOf(p.cfg.now) {
				res = append(res, mutant{label: "owner-standby-in-own-slot", expect: expAccept, b: b, vc: oo.ValidatorChange, always: true})
			}
			break
		}
	}
	return res
}

// ---- the runner's side: the application's list from the blocks it applied ----

type appState struct {
	vals        []*labi.Validator
	precommit   uint64
	certificate uint64
}

// appStateFor returns what the application answered last before a block of the given height: the scripted
// answer of the newest applied block below it that changes the parameters, else the genesis answer.
func (r *runner) appStateFor(height uint32) appState {
	for i := len(r.applied) - 1; i >= 0; i-- {
		b := r.applied[i]
		if b.Header.Height >= height {
			continue
		}
		s, err := node.ScriptFromAssets(b.Assets)
		if err != nil || len(s.Validators) == 0 {
			continue
		}
		st := appState{precommit: s.Precommit, certificate: s.Certificate}
		for _, v := range s.Validators {
			st.vals = append(st.vals, &labi.Validator{Address: corr.UnHex(orDash(v.Address)), BFTWeight: v.BFTWeight,
				GeneratorKey: corr.UnHex(orDash(v.GeneratorKey)), BLSKey: corr.UnHex(orDash(v.BLSKey))})
		}
		return st
	}
	return appState{vals: r.n.ABI.GenesisValidators, precommit: r.n.ABI.GenesisPrecommit, certificate: r.n.ABI.GenesisCertificate}
}

func showAppList(n *node.Node, vals []*labi.Validator) string {
	var s []string
	for i, v := range vals {
		name := corr.Hex(v.Address)
		if kh := n.ValidatorByAddress(v.Address); kh != nil {
			name = kh.String()
		}
		s = append(s, fmt.Sprintf("%d:%s:w%d", i, name, v.BFTWeight))
	}
	return "[" + strings.Join(s, " ") + "]"
}

// slotDetail describes the slot of a block in terms of the application's list.
func (r *runner) slotDetail(b *blockchain.Block) string {
	n := r.n
	st := r.appStateFor(b.Header.Height)
	if len(st.vals) == 0 || b.Header.Timestamp < n.Cfg.GenesisTimestamp {
		return "no application list"
	}
	slot := uint64(b.Header.Timestamp-n.Cfg.GenesisTimestamp) / uint64(n.Cfg.BlockTime)
	i := slot % uint64(len(st.vals))
	return fmt.Sprintf("height %d slot %d: application list %s, owner = entry %d (slot %% %d) %s; generator of the block %s",
		b.Header.Height, slot, showAppList(n, st.vals), i, len(st.vals), corr.Hex(st.vals[i].Address), corr.Hex(b.Header.GeneratorAddress))
}

// failOnce reports a signature at most once per case (the state oracles would repeat it after every block).
func (r *runner) failOnce(op int, sig, detail string) {
	if r.onceSigs == nil {
		r.onceSigs = map[string]bool{}
	}
	if !r.onceSigs[sig] {
		r.onceSigs[sig] = true
		r.fail(op, sig, detail)
	}
}

// storedOracle compares what the node stored for the next height with the application's list.
func (r *runner) storedOracle(op int, consensusValidators int) {
	n := r.n
	h := n.Height() + 1
	st := r.appStateFor(h)
	gens, err := n.Generators(h)
	if err != nil {
		r.failOnce(op, "c03-stored-generators-differ", fmt.Sprintf("height %d: GetGeneratorKeys: %v", h, err))
		return
	}
	same := len(gens) == len(st.vals)
	for i := 0; same && i < len(gens); i++ {
		same = bytes.Equal(gens[i].Address(), st.vals[i].Address) && bytes.Equal(gens[i].GeneratorKey(), st.vals[i].GeneratorKey)
	}
	if !same {
		var got []string
		for _, g := range gens {
			got = append(got, corr.Hex(g.Address()))
		}
		r.failOnce(op, "c03-stored-generators-differ", fmt.Sprintf("for height %d the application's list is %s (%d entries); the node stored the %d generators %s",
			h, showAppList(n, st.vals), len(st.vals), len(gens), strings.Join(got, ",")))
	}
	params, err := n.BFTParams(h)
	if err != nil {
		r.failOnce(op, "c03-stored-bft-validators-differ", fmt.Sprintf("height %d: GetBFTParameters: %v", h, err))
		return
	}
	want := map[string]bool{}
	nVoting := 0
	for _, v := range st.vals {
		if v.BFTWeight != 0 {
			nVoting++
			want[fmt.Sprintf("%x:%d:%x", []byte(v.Address), v.BFTWeight, []byte(v.BLSKey))] = true
		}
	}
	ok := len(params.Validators()) == nVoting
	for _, v := range params.Validators() {
		ok = ok && want[fmt.Sprintf("%x:%d:%x", []byte(v.Address()), v.BFTWeight(), []byte(v.BLSKey()))]
	}
	if !ok {
		r.failOnce(op, "c03-stored-bft-validators-differ", fmt.Sprintf("for height %d the application's list is %s; the node stored %d BFT validators", h, showAppList(n, st.vals), len(params.Validators())))
	}
	if st.certificate != 0 {
		if ref, amb := c03conv.RefValidatorsHash(st.vals, st.certificate); !amb && !bytes.Equal(ref, params.ValidatorsHash()) {
			r.failOnce(op, "c03-stored-validators-hash-differs", fmt.Sprintf("for height %d the application's list is %s, certificate threshold %d: stored validatorsHash %x, reference over the voting entries %x",
				h, showAppList(n, st.vals), st.certificate, []byte(params.ValidatorsHash()), ref))
		}
	}
	// labi.Consensus.CurrentValidators of the block just executed: the list valid AT its height
	if consensusValidators >= 0 {
		if cur := r.appStateFor(n.Height()); len(cur.vals) != consensusValidators {
			r.failOnce(op, "c03-consensus-validators-differ", fmt.Sprintf("block of height %d: the application's list %s has %d entries, the engine handed %d current validators to the application",
				n.Height(), showAppList(n, cur.vals), len(cur.vals), consensusValidators))
		}
	}
}

// consensusValidatorsOf reads the number of CurrentValidators the mock application logged for the last
// BeforeTransactionsExecute call (-1: none logged).
func consensusValidatorsOf(abi *node.MockABI) int {
	res := -1
	for _, c := range abi.Calls {
		if c.Hook != node.HookBeforeTxs {
			continue
		}
		if i := strings.LastIndex(c.Detail, "validators="); i >= 0 {
			if k, err := strconv.Atoi(strings.TrimSpace(c.Detail[i+len("validators="):])); err == nil {
				res = k
			}
		}
	}
	return res
}
