package c03

import (
	"bytes"
	"crypto/ed25519"
	"crypto/sha256"
	"fmt"
	"sort"
	"strings"

	"github.com/LiskHQ/lisk-engine/pkg/blockchain"
	"github.com/LiskHQ/lisk-engine/pkg/consensus/certificate"
	"github.com/LiskHQ/lisk-engine/pkg/labi"

	"verifharness/blsref"
	"verifharness/c03conv"
	"verifharness/corr"
	"verifharness/node"
)

// This file computes the abstract facts about a candidate block that the Lean model takes as
// input. Wherever it is cheap the facts come from small reference implementations written here
// (Merkle roots, static transaction validity, slot arithmetic, generator round robin, Ed25519 via
// the standard library) and not from the functions under test.

// ---- reference implementations ----

func sha(b ...[]byte) []byte {
	h := sha256.New()
	for _, x := range b {
		h.Write(x)
	}
	return h.Sum(nil)
}

// refMerkleRoot is the regular Merkle tree root of LIP-0031: leaf = H(0x00 || data), branch =
// H(0x01 || left || right), split at the largest power of two strictly below the size.
func refMerkleRoot(data [][]byte) []byte {
	switch len(data) {
	case 0:
		return sha()
	case 1:
		return sha([]byte{0}, data[0])
	}
	k := 1
	for k*2 < len(data) {
		k *= 2
	}
	return sha([]byte{1}, refMerkleRoot(data[:k]), refMerkleRoot(data[k:]))
}

func isAlnum(s string) bool {
	for _, c := range []byte(s) {
		if !(c >= '0' && c <= '9' || c >= 'a' && c <= 'z' || c >= 'A' && c <= 'Z') {
			return false
		}
	}
	return true
}

// refTxStaticValid restates the rules of Transaction.Validate.
func refTxStaticValid(tx *blockchain.Transaction) bool {
	if !isAlnum(tx.Module) || !isAlnum(tx.Command) {
		return false
	}
	if len(tx.Params) > 14*1024 {
		return false
	}
	if len(tx.SenderPublicKey) != 32 || len(tx.Signatures) == 0 {
		return false
	}
	for _, s := range tx.Signatures {
		if len(s) != 64 {
			return false
		}
	}
	return true
}

// refAssets restates the loop of BlockAssets.Valid: 0 ok, 1 not sorted, 2 duplicate module.
func refAssets(assets []*blockchain.BlockAsset) int {
	mods := make([]string, len(assets))
	for i, a := range assets {
		mods[i] = a.Module
	}
	sorted := append([]string{}, mods...)
	sort.Strings(sorted)
	seen := map[string]bool{}
	for i, m := range mods {
		if sorted[i] != m {
			return 1
		}
		if seen[m] {
			return 2
		}
		seen[m] = true
	}
	return 0
}

// ---- tracked generator lists ----

type genList struct {
	from uint32 // first height the list is valid for
	vals []*node.Validator
	w    []uint64 // the APPLICATION's BFT weights of the entries (0 = standby validator); see applist.go
}

// world is what the planner knows about the chain without asking the code under test: the
// generator lists by activation height.
type world struct {
	n    *node.Node
	gens []genList
	// event roots by event list (CalculateEventRoot builds a database per call)
	roots map[string][]byte
}

func (w *world) eventRoot(events []*blockchain.Event) []byte {
	h := sha256.New()
	for _, e := range events {
		h.Write(e.Encode())
		h.Write([]byte{0xff})
	}
	key := string(h.Sum(nil))
	if r, ok := w.roots[key]; ok {
		return r
	}
	r, _ := blockchain.CalculateEventRoot(events)
	if w.roots == nil || len(w.roots) > 4096 {
		w.roots = map[string][]byte{}
	}
	w.roots[key] = r
	return r
}

func (w *world) gensAt(height uint32) []*node.Validator {
	var best *genList
	for i := range w.gens {
		g := &w.gens[i]
		if g.from <= height && (best == nil || g.from >= best.from) {
			best = g
		}
	}
	if best == nil {
		return nil
	}
	return best.vals
}

func (w *world) slotOf(ts uint32) uint64 {
	return uint64(ts-w.n.Cfg.GenesisTimestamp) / uint64(w.n.Cfg.BlockTime)
}

// slotGenerator is the key holder assigned to the slot of ts for a block at the height.
func (w *world) slotGenerator(height, ts uint32) *node.Validator {
	g := w.gensAt(height)
	if len(g) == 0 {
		return nil
	}
	return g[w.slotOf(ts)%uint64(len(g))]
}

// ---- facts ----

func b01(b bool) string {
	if b {
		return "1"
	}
	return "0"
}

func verdictDigit(tx *blockchain.Transaction, i int) byte {
	if len(tx.Params) > i && tx.Params[i] >= 1 && tx.Params[i] <= 3 {
		return '0' + tx.Params[i]
	}
	return '0'
}

func scriptChange(s *node.Script) (string, []*labi.Validator) {
	if s.Precommit == 0 && s.Certificate == 0 && len(s.Validators) == 0 {
		return "-", nil
	}
	// the APPLICATION's list as it is (every entry with its weight, weight 0 included): the split into BFT
	// validators and generators is made by the model itself (Model/Convert.lean), marker `app`
	var app []string
	var lv []*labi.Validator
	for _, v := range s.Validators {
		a := corr.UnHex(orDash(v.Address))
		g := corr.UnHex(orDash(v.GeneratorKey))
		bk := corr.UnHex(orDash(v.BLSKey))
		lv = append(lv, &labi.Validator{Address: a, BFTWeight: v.BFTWeight, GeneratorKey: g, BLSKey: bk})
		app = append(app, fmt.Sprintf("%s:%d", corr.Hex(a), v.BFTWeight))
	}
	j := func(l []string) string {
		if len(l) == 0 {
			return "-"
		}
		return strings.Join(l, ",")
	}
	return fmt.Sprintf("%d/%d/%s/app", s.Precommit, s.Certificate, j(app)), lv
}

func orDash(s string) string {
	if s == "" {
		return "-"
	}
	return s
}

// acSigValid evaluates the aggregate BLS certificate of the header's aggregate commit against the
// chain's block at that height and the BFT parameters of that height (keys ascending): bitmap length,
// true weight of the flagged validators >= certificate threshold, aggregate valid for exactly them.
func acSigValid(n *node.Node, ac *blockchain.AggregateCommit) (ok bool) {
	defer func() {
		if recover() != nil {
			ok = false
		}
	}()
	if len(ac.AggregationBits) == 0 || len(ac.CertificateSignature) == 0 || ac.Height > n.Height() {
		return false
	}
	h, err := n.HeaderAt(ac.Height)
	if err != nil {
		return false
	}
	params, err := n.BFTParams(ac.Height)
	if err != nil {
		return false
	}
	type kw struct {
		k []byte
		w uint64
	}
	var kws []kw
	for _, v := range params.Validators() {
		kws = append(kws, kw{v.BLSKey(), v.BFTWeight()})
	}
	sort.Slice(kws, func(i, j int) bool { return bytes.Compare(kws[i].k, kws[j].k) < 0 })
	keys := make([][]byte, len(kws))
	weights := make([]uint64, len(kws))
	for i, x := range kws {
		keys[i], weights[i] = x.k, x.w
	}
	// The verdict is NOT taken from pkg/crypto (BLSVerifyWeightedAggSig is part of the acceptance path
	// under test): harness/blsref reads the bitmap itself, sums the TRUE weight of the flagged positions
	// in math/big, compares it with the certificate threshold and calls blst directly on exactly the
	// flagged keys. Only the certificate's signing bytes (codec) come from the repository.
	return blsref.Weighted(keys, ac.AggregationBits, ac.CertificateSignature, weights, params.CertificateThreshold(), certificateMessage(n, h)).Accept
}

// certificateMessage is the message validators sign for the block: H("LSK_CE_" || chainID || certificate bytes).
func certificateMessage(n *node.Node, h *blockchain.BlockHeader) []byte {
	return sha([]byte("LSK_CE_"), n.Cfg.ChainID, certificate.NewCertificateFromBlock(h).SigningBytes())
}

// facts renders the 27 fact tokens of a candidate built on the current tip of w.n. injectInit
// tells that the runner makes InitStateMachine fail for this candidate.
func (w *world) facts(b *blockchain.Block, injectInit bool) string {
	n := w.n
	h := b.Header
	tip := n.Tip().Header
	ac := h.AggregateCommit
	if ac == nil {
		ac = &blockchain.AggregateCommit{}
	}
	// header signature under the key of the generator assigned to the slot
	sigOK := false
	if g := w.slotGenerator(h.Height, h.Timestamp); g != nil && len(h.Signature) == ed25519.SignatureSize {
		msg := sha(blockchain.TagBlockHeader, n.Cfg.ChainID, h.SigningBytes())
		sigOK = ed25519.Verify(ed25519.PublicKey(g.EdPub), msg, h.Signature)
	}
	txStatic := "-"
	txs := "-"
	size := 0
	ids := make([][]byte, len(b.Transactions))
	if len(b.Transactions) > 0 {
		var st, vs []string
		for i, tx := range b.Transactions {
			enc := tx.Encode()
			size += len(enc)
			ids[i] = sha(enc)
			st = append(st, b01(refTxStaticValid(tx)))
			vs = append(vs, string([]byte{verdictDigit(tx, 0), verdictDigit(tx, 1)}))
		}
		txStatic = strings.Join(st, "")
		txs = strings.Join(vs, ".")
	}
	encAssets := make([][]byte, len(b.Assets))
	for i, a := range b.Assets {
		encAssets[i] = a.Encode()
	}
	script, _ := node.ScriptFromAssets(b.Assets)
	hook := func(hk node.Hook) bool { return script.FailHook != string(hk) }
	hooks := b01(!injectInit) + b01(hook(node.HookVerifyAssets)) + b01(hook(node.HookBeforeTxs)) + b01(hook(node.HookAfterTxs))
	change, newVals := scriptChange(script)
	// validatorsHash expected after execution
	var expVH []byte
	if change != "-" {
		// own reference over the voting entries of the application's list (c03conv.RefValidatorsHash: hand-written
		// encoding, no function of the repository); only when two voting entries share a BLS key with different
		// weights - the order of equal keys is then not determined - the repository's own computation is taken
		if ref, amb := c03conv.RefValidatorsHash(newVals, script.Certificate); !amb {
			expVH = ref
		} else {
			expVH, _ = node.ValidatorsHashOf(newVals, script.Certificate)
		}
	} else if p, err := n.BFTParams(h.Height + 1); err == nil {
		expVH = p.ValidatorsHash()
	}
	events := node.ExpectedEvents(h.Height, b.Assets, b.Transactions)
	er := w.eventRoot(events)
	commitOK := hook(node.HookCommit) &&
		(len(h.StateRoot) == 0 || bytes.Equal(h.StateRoot, node.PredictStateRoot(tip.StateRoot, h.Height, b.Transactions)))
	tok := []string{
		fmt.Sprint(h.Version), fmt.Sprint(h.Height), fmt.Sprint(h.Timestamp),
		corr.Hex(h.PreviousBlockID), corr.Hex(h.GeneratorAddress), corr.Hex(h.ID),
		fmt.Sprint(h.MaxHeightPrevoted), fmt.Sprint(h.MaxHeightGenerated), b01(h.ImpliesMaxPrevotes),
		fmt.Sprint(ac.Height), fmt.Sprint(len(ac.AggregationBits)), fmt.Sprint(len(ac.CertificateSignature)), b01(acSigValid(n, ac)),
		sigLenToken(h), b01(sigOK),
		txStatic, b01(bytes.Equal(h.TransactionRoot, refMerkleRoot(ids))),
		fmt.Sprint(refAssets(b.Assets)), b01(bytes.Equal(h.AssetRoot, refMerkleRoot(encAssets))), fmt.Sprint(size),
		hooks, txs, change,
		b01(expVH != nil && bytes.Equal(h.ValidatorsHash, expVH)), fmt.Sprint(len(events)), b01(bytes.Equal(h.EventRoot, er)), b01(commitOK),
	}
	return strings.Join(tok, " ")
}

// sigLenToken renders the signature length and, when it is not 32, the stateRoot length
// (`<sig>/<stateRoot>`): BlockHeader.Validate requires a 32-byte stateRoot since fix 4d58fae.
func sigLenToken(h *blockchain.BlockHeader) string {
	if len(h.StateRoot) == 32 {
		return fmt.Sprint(len(h.Signature))
	}
	return fmt.Sprintf("%d/%d", len(h.Signature), len(h.StateRoot))
}
