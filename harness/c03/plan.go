package c03

import (
	"bytes"
	"fmt"
	"math/rand"
	"reflect"
	"sort"
	"strconv"
	"strings"
	"time"

	"github.com/LiskHQ/lisk-engine/pkg/blockchain"
	"github.com/LiskHQ/lisk-engine/pkg/codec"
	"github.com/LiskHQ/lisk-engine/pkg/labi"

	"verifharness/corr"
	"verifharness/node"
)

// acBoundEnforced mirrors the guard of the next-BFT-parameters bound in
// Executer.verifyAggregateCommit (pkg/consensus/certificate.go): `err == nil &&
// aggregteCommit.Height > heightNextBFTParams-1`. Before the fix "verifyAggregateCommit never
// enforced the next-BFT-parameter bound" the guard read `err != nil` and could never hold; for that
// code set this to false (the Lean model and its theorems cover both values, the reset op carries
// the flag to the model, and the unenforced rule is then reported once per run by Extra).
const acBoundEnforced = true

const maxTxLen = 15 * 1024 // what node.start passes as ChainConfig.MaxTransactionsLength

// maxAcceptedCandidates bounds the harmless alterations offered as candidates per probed state.
const maxAcceptedCandidates = 3

// expectation of the PROPERTY for a candidate
const (
	expReject = "R" // violates a listed rule: must be rejected
	expAccept = "A" // satisfies every rule (valid successor or harmless alteration): must be accepted
	expIgnore = "I" // identical to the tip: ignored
	// expKnown: violates a listed rule that the repository is known not to enforce (see
	// acBoundEnforced). Acceptance is collected and reported once per run by Extra (with the same
	// Sig an unexpected unenforced rule would get) instead of once per candidate.
	expKnown = "K"
)

type planner struct {
	rng   *rand.Rand
	w     *world
	n     *node.Node
	ops   []string
	nonce uint64
	cfg   caseCfg
}

type caseCfg struct {
	nv, extra, batch int
	seed             int64
	weights          []uint64
	genesisTS, now   uint32
	blockTime        uint32
}

func (c caseCfg) nodeConfig() node.Config {
	return node.Config{NumValidators: c.nv, ExtraValidators: c.extra, BatchSize: c.batch, Seed: c.seed,
		Weights: append([]uint64{}, c.weights...), GenesisTimestamp: c.genesisTS, BlockTime: c.blockTime}
}

func (c caseCfg) goToken() string {
	ws := make([]string, len(c.weights))
	for i, w := range c.weights {
		ws[i] = fmt.Sprint(w)
	}
	return fmt.Sprintf("go:%d:%d:%d:%s", c.nv, c.extra, c.seed, strings.Join(ws, ","))
}

func parseGoToken(tok string) (nv, extra int, seed int64, weights []uint64, err error) {
	p := strings.Split(tok, ":")
	if len(p) != 5 || p[0] != "go" {
		return 0, 0, 0, nil, fmt.Errorf("bad go token %q", tok)
	}
	nv, _ = strconv.Atoi(p[1])
	extra, _ = strconv.Atoi(p[2])
	seed, _ = strconv.ParseInt(p[3], 10, 64)
	for _, s := range strings.Split(p[4], ",") {
		x, _ := strconv.ParseUint(s, 10, 64)
		weights = append(weights, x)
	}
	return
}

// resetOp renders the reset line for a freshly created node (genesis state).
func resetOp(n *node.Node, c caseCfg) string {
	// the genesis answer of the application: every entry with its weight (0 = standby); the model converts it itself (`app`)
	var app []string
	for _, v := range n.Validators[:c.nv] {
		app = append(app, fmt.Sprintf("%s:%d", corr.Hex(v.Address), v.Weight))
	}
	return fmt.Sprintf("reset %d %d %d %d %d %s %s %d %d %s %s %s", n.Cfg.BatchSize, n.Cfg.GenesisTimestamp, n.Cfg.BlockTime,
		c.now, maxTxLen, b01(acBoundEnforced), corr.Hex(n.Genesis.Header.ID), n.Cfg.PrecommitThreshold, n.Cfg.CertificateThreshold,
		strings.Join(app, ","), "app", c.goToken())
}

func newPlanner(rng *rand.Rand, c caseCfg) (*planner, error) {
	n, err := node.New(c.nodeConfig())
	if err != nil {
		return nil, err
	}
	n.ABI.LogCalls = false
	p := &planner{rng: rng, n: n, cfg: c, nonce: 1000}
	p.w = &world{n: n, gens: []genList{genesisList(n, c.nv, c.weights)}}
	p.ops = append(p.ops, resetOp(n, c))
	return p, nil
}

func (p *planner) emit(kind, label, expect, via string, b *blockchain.Block, injectInit bool) {
	p.ops = append(p.ops, fmt.Sprintf("%s %s %s %s %s %s %x", kind, label, expect, via, corr.Hex(p.n.Tip().Header.ID), p.w.facts(b, injectInit), b.Encode()))
}

// viaOf: process is used when the fork choice sends the block to the valid-successor branch,
// otherwise the synchroniser path (Validate + processValidated).
func (p *planner) viaOf(b *blockchain.Block) string {
	tip := p.n.Tip().Header
	if b.Header.Height == tip.Height+1 && bytes.Equal(b.Header.PreviousBlockID, tip.ID) {
		return "P"
	}
	return "V"
}

func (p *planner) tx(verify, exec byte, extraParams int) *blockchain.Transaction {
	p.nonce++
	params := []byte{verify, exec}
	for i := 0; i < extraParams; i++ {
		params = append(params, byte(p.rng.Intn(256)))
	}
	sender := p.n.Validators[p.rng.Intn(len(p.n.Validators))]
	return p.n.NewTransaction(sender, p.nonce, uint64(1000+p.rng.Intn(100000)), params)
}

func (p *planner) event(mod string) *blockchain.Event {
	topics := []codec.Hex{}
	for i := 0; i <= p.rng.Intn(3); i++ {
		topics = append(topics, codec.Hex{byte(p.rng.Intn(256)), byte(i)})
	}
	return &blockchain.Event{Module: mod, Name: "ev" + fmt.Sprint(p.rng.Intn(5)), Data: []byte{byte(p.rng.Intn(256)), 1}, Topics: topics}
}

// paramKeys returns the activation heights of the stored BFT parameters (4th section of the dump).
func paramKeys(n *node.Node) []uint32 {
	parts := strings.Split(n.BFTDump(), "|")
	var res []uint32
	if len(parts) < 5 {
		return res
	}
	for _, f := range strings.Fields(parts[3]) {
		if i := strings.IndexByte(f, '='); i > 0 {
			if k, err := strconv.ParseUint(f[:i], 10, 32); err == nil {
				res = append(res, uint32(k))
			}
		}
	}
	return res
}

// nextParamsBound is the largest height an aggregate commit may have according to LIP-0061:
// min(mhpc, smallest parameter activation height >= mhc+2, minus one).
func nextParamsBound(n *node.Node) uint32 {
	_, mhpc, mhc := n.BFTHeights()
	bound := mhpc
	for _, k := range paramKeys(n) {
		if k >= mhc+2 && k-1 < bound {
			bound = k - 1
		}
	}
	return bound
}

// aggregateFor builds an aggregate commit for the chain's block at the height, signed by the first
// `signers` validators (in BLS key order of the reference) of the parameters of that height; 0 = all.
func (p *planner) aggregateFor(height uint32, signers int) *blockchain.AggregateCommit {
	params, err := p.n.BFTParams(height)
	if err != nil {
		return nil
	}
	var vs []*node.Validator
	for _, v := range params.Validators() {
		if kh := p.n.ValidatorByAddress(v.Address()); kh != nil {
			vs = append(vs, kh)
		}
	}
	if signers > 0 && signers < len(vs) {
		vs = vs[:signers]
	}
	ac, err := p.n.ReferenceAggregate(height, vs)
	if err != nil {
		return nil
	}
	return ac
}

// randomOpts chooses the content of the next honest block.
func (p *planner) randomOpts() node.BlockOpts {
	n, r := p.n, p.rng
	o := node.BlockOpts{}
	if r.Intn(6) == 0 {
		o.SlotsAhead = 2 + r.Intn(3)
	}
	if r.Intn(3) == 0 {
		o.TimestampOffset = uint32(r.Intn(int(n.Cfg.BlockTime)))
	}
	if r.Intn(3) == 0 {
		for i := 0; i <= r.Intn(3); i++ {
			exec := node.TxOK
			if r.Intn(4) == 0 {
				exec = node.TxFail // a failed (not invalid) execution is part of a valid block
			}
			o.Txs = append(o.Txs, p.tx(node.TxOK, exec, r.Intn(40)))
		}
	}
	if r.Intn(4) == 0 {
		o.Assets = append(o.Assets, &blockchain.BlockAsset{Module: "random", Data: []byte{byte(r.Intn(256)), 1, 2}})
		if r.Intn(2) == 0 {
			o.Assets = append(o.Assets, &blockchain.BlockAsset{Module: "aux", Data: []byte{byte(r.Intn(256))}})
		}
	}
	if r.Intn(4) == 0 {
		o.BeforeEvents = append(o.BeforeEvents, p.event("reward"))
	}
	if r.Intn(4) == 0 {
		o.AfterEvents = append(o.AfterEvents, p.event("pos"))
	}
	// aggregate commit when something is certifiable
	_, _, mhc := n.BFTHeights()
	if bound := nextParamsBound(n); bound > mhc && r.Intn(3) == 0 {
		h := mhc + 1 + uint32(r.Intn(int(bound-mhc)))
		if r.Intn(3) == 0 {
			// signed by a random sufficient subset (any positions of the key list) instead of everybody
			if ks := p.keyedSet(h); ks != nil {
				o.AggregateCommit = ks.aggregate(ks.randomQuorum(r))
			}
		}
		if o.AggregateCommit == nil {
			if ac := p.aggregateFor(h, 0); ac != nil {
				o.AggregateCommit = ac
			}
		}
	}
	if o.AggregateCommit == nil {
		o.AggregateCommit = &blockchain.AggregateCommit{Height: mhc, AggregationBits: codec.Hex{}, CertificateSignature: codec.Hex{}}
	}
	// validator change
	if r.Intn(14) == 0 {
		if vc := p.randomChange(); vc != nil {
			o.ValidatorChange = vc
		}
	}
	return o
}

// currentSet returns the key holders and weights of the APPLICATION's list valid for the next block.
func (p *planner) currentSet() ([]*node.Validator, map[int]uint64) {
	gens := p.w.gensAt(p.n.Height() + 1)
	weights := map[int]uint64{}
	if g := p.w.listAt(p.n.Height() + 1); g != nil {
		for i, v := range g.vals {
			weights[v.Index] = g.weightOf(i)
		}
	}
	return gens, weights
}

func (p *planner) randomChange() *node.ValidatorChange {
	r := p.rng
	gens, weights := p.currentSet()
	var next []*node.Validator
	nw := map[int]uint64{}
	in := map[int]bool{}
	for _, v := range gens {
		next = append(next, v)
		nw[v.Index] = weights[v.Index]
		in[v.Index] = true
	}
	nCases := 3
	hasStandby := false
	for _, wt := range nw {
		hasStandby = hasStandby || wt == 0
	}
	if hasStandby {
		nCases = 7 // standby validators come and go in the histories that start with some (profile "standby"); the others keep their shape
	}
	switch r.Intn(nCases) {
	case 3: // a voting validator becomes a standby validator (keeps its slot, stops voting)
		var voting []*node.Validator
		for _, v := range next {
			if nw[v.Index] > 0 {
				voting = append(voting, v)
			}
		}
		if len(voting) < 2 {
			return nil
		}
		nw[voting[r.Intn(len(voting))].Index] = 0
	case 4: // a key holder outside the set joins as standby validator at a random position
		var out []*node.Validator
		for _, v := range p.n.Validators {
			if !in[v.Index] {
				out = append(out, v)
			}
		}
		if len(out) == 0 {
			return nil
		}
		nv := out[r.Intn(len(out))]
		i := r.Intn(len(next) + 1)
		next = append(next[:i], append([]*node.Validator{nv}, next[i:]...)...)
		nw[nv.Index] = 0
	case 5: // a standby validator starts voting
		var sb []*node.Validator
		for _, v := range next {
			if nw[v.Index] == 0 {
				sb = append(sb, v)
			}
		}
		if len(sb) == 0 {
			return nil
		}
		nw[sb[r.Intn(len(sb))].Index] = uint64(1 + r.Intn(2))
	case 6: // the order of the list changes (shuffle): the slots move, the BFT parameters stay
		if len(next) < 2 {
			return nil
		}
		r.Shuffle(len(next), func(a, b int) { next[a], next[b] = next[b], next[a] })
	case 0: // replace one validator by a key holder outside the set
		var out []*node.Validator
		for _, v := range p.n.Validators {
			if !in[v.Index] {
				out = append(out, v)
			}
		}
		if len(out) == 0 || len(next) == 0 {
			return nil
		}
		i := r.Intn(len(next))
		nv := out[r.Intn(len(out))]
		delete(nw, next[i].Index)
		next[i] = nv
		nw[nv.Index] = 1
	case 1: // change a weight
		if len(next) == 0 {
			return nil
		}
		v := next[r.Intn(len(next))]
		nw[v.Index] = uint64(1 + r.Intn(3))
	case 2: // rotate the generator order
		if len(next) < 2 {
			return nil
		}
		next = append(next[1:], next[0])
	}
	total := uint64(0)
	var lv []*labi.Validator
	for _, v := range next {
		lv = append(lv, v.Labi(nw[v.Index]))
		total += nw[v.Index]
	}
	voting := 0
	for _, v := range lv {
		if v.BFTWeight > 0 {
			voting++
		}
	}
	if total == 0 || voting > p.n.Cfg.BatchSize {
		return nil
	}
	return &node.ValidatorChange{Validators: lv, PrecommitThreshold: node.DefaultThreshold(total), CertificateThreshold: node.DefaultThreshold(total)}
}

// applyBlock emits and applies a block that satisfies every rule (the honest successor or one of
// its harmless alterations).
func (p *planner) applyBlock(label string, vc *node.ValidatorChange, b *blockchain.Block) error {
	p.emit("apply", label, expAccept, p.viaOf(b), b, false)
	p.ops = append(p.ops, "dump")
	r := p.n.ProcessResult(b)
	p.n.DrainEvents()
	if r.Err != nil || !r.Applied {
		return fmt.Errorf("honest block at height %d not applied: %v", b.Header.Height, r.Err)
	}
	if vc != nil && (len(vc.Validators) != 0 || vc.PrecommitThreshold != 0 || vc.CertificateThreshold != 0) {
		p.w.gens = append(p.w.gens, listOfChange(p.n, b.Header.Height+1, vc.Validators))
	}
	return nil
}

// ---- mutations ----

type mutant struct {
	label, expect string
	b             *blockchain.Block
	injectInit    bool
	vc            *node.ValidatorChange // parameter change executed by the block (for the planner's bookkeeping)
	always        bool                  // harmless alteration that is offered as candidate at every probe (not sampled)
}

func garbage(r *rand.Rand, n int) []byte {
	b := make([]byte, n)
	for i := range b {
		b[i] = byte(r.Intn(256))
	}
	return b
}

// headerFieldMutators lists, for every encoded field of blockchain.BlockHeader, an alteration
// that keeps the field well-formed. coverage() checks by reflection that no field is missing, so a
// header field added to the repository without an entry here fails the harness.
var headerFieldMutators = map[string]func(r *rand.Rand, h *blockchain.BlockHeader){
	"Version":            func(r *rand.Rand, h *blockchain.BlockHeader) { h.Version = 3 },
	"Timestamp":          func(r *rand.Rand, h *blockchain.BlockHeader) { h.Timestamp ^= 1 },
	"Height":             func(r *rand.Rand, h *blockchain.BlockHeader) { h.Height++ },
	"PreviousBlockID":    func(r *rand.Rand, h *blockchain.BlockHeader) { h.PreviousBlockID = garbage(r, 32) },
	"GeneratorAddress":   func(r *rand.Rand, h *blockchain.BlockHeader) { h.GeneratorAddress = garbage(r, 20) },
	"TransactionRoot":    func(r *rand.Rand, h *blockchain.BlockHeader) { h.TransactionRoot = garbage(r, 32) },
	"AssetRoot":          func(r *rand.Rand, h *blockchain.BlockHeader) { h.AssetRoot = garbage(r, 32) },
	"EventRoot":          func(r *rand.Rand, h *blockchain.BlockHeader) { h.EventRoot = garbage(r, 32) },
	"StateRoot":          func(r *rand.Rand, h *blockchain.BlockHeader) { h.StateRoot = garbage(r, 32) },
	"MaxHeightPrevoted":  func(r *rand.Rand, h *blockchain.BlockHeader) { h.MaxHeightPrevoted++ },
	"MaxHeightGenerated": func(r *rand.Rand, h *blockchain.BlockHeader) { h.MaxHeightGenerated ^= 1 },
	"ImpliesMaxPrevotes": func(r *rand.Rand, h *blockchain.BlockHeader) { h.ImpliesMaxPrevotes = !h.ImpliesMaxPrevotes },
	"ValidatorsHash":     func(r *rand.Rand, h *blockchain.BlockHeader) { h.ValidatorsHash = garbage(r, 32) },
	"AggregateCommit": func(r *rand.Rand, h *blockchain.BlockHeader) {
		h.AggregateCommit = &blockchain.AggregateCommit{Height: h.AggregateCommit.Height + 1, AggregationBits: h.AggregateCommit.AggregationBits, CertificateSignature: h.AggregateCommit.CertificateSignature}
	},
	"Signature": func(r *rand.Rand, h *blockchain.BlockHeader) {
		h.Signature[r.Intn(len(h.Signature))] ^= 1 << uint(r.Intn(8))
	},
}

// headerFields returns the names of the encoded fields of blockchain.BlockHeader in field-number order.
func headerFields() []string {
	t := reflect.TypeOf(blockchain.BlockHeader{})
	var res []string
	for i := 0; i < t.NumField(); i++ {
		if t.Field(i).Tag.Get("fieldNumber") != "" {
			res = append(res, t.Field(i).Name)
		}
	}
	return res
}

// uncoveredHeaderFields lists encoded header fields without a mutator.
func uncoveredHeaderFields() []string {
	var res []string
	for _, f := range headerFields() {
		if _, ok := headerFieldMutators[f]; !ok {
			res = append(res, f)
		}
	}
	return res
}

// baseOpts: the options that rebuild b0 itself (slot, generator and maxHeightGenerated made explicit).
func (p *planner) baseOpts(o node.BlockOpts, b0 *blockchain.Block) node.BlockOpts {
	base := o
	base.SlotsAhead = int(p.w.slotOf(b0.Header.Timestamp) - p.w.slotOf(p.n.Tip().Header.Timestamp))
	base.Generator = p.n.ValidatorByAddress(b0.Header.GeneratorAddress)
	base.MaxHeightGenerated = node.U32(b0.Header.MaxHeightGenerated)
	return base
}

// mutants builds every single alteration of the valid successor (o, b0) on the current tip.
func (p *planner) mutants(o node.BlockOpts, b0 *blockchain.Block, heavy bool) []mutant {
	n, r := p.n, p.rng
	var res []mutant
	tip := n.Tip().Header
	gen := n.ValidatorByAddress(b0.Header.GeneratorAddress)
	slots := int(p.w.slotOf(b0.Header.Timestamp) - p.w.slotOf(tip.Timestamp))
	base := p.baseOpts(o, b0)
	add := func(label, expect string, b *blockchain.Block) {
		if b != nil {
			res = append(res, mutant{label: label, expect: expect, b: b, vc: base.ValidatorChange})
		}
	}
	// re-signed alteration of the finished block
	signed := func(label, expect string, f func(b *blockchain.Block)) {
		oo := base
		oo.Mutate = f
		b, err := n.BuildBlock(oo)
		if err == nil {
			add(label, expect, b)
		}
	}
	// alteration through the build options (all derived fields stay consistent)
	built := func(label, expect string, f func(oo *node.BlockOpts)) {
		oo := base
		f(&oo)
		b, err := n.BuildBlock(oo)
		if err == nil && b != nil {
			res = append(res, mutant{label: label, expect: expect, b: b, vc: oo.ValidatorChange})
		}
	}
	// alteration after signing (signature not redone)
	unsigned := func(label, expect string, f func(b *blockchain.Block)) {
		b, err := node.CopyBlock(b0)
		if err != nil {
			return
		}
		f(b)
		b.Header.Init()
		add(label, expect, b)
	}

	// -- every header field, signature kept: the signature must cover it
	for _, f := range headerFields() {
		if f == "Signature" {
			continue
		}
		mut := headerFieldMutators[f]
		if mut == nil {
			continue
		}
		unsigned("unsigned-"+f, expReject, func(b *blockchain.Block) { mut(r, b.Header) })
	}
	// -- version
	for _, v := range []uint32{0, 1, 3} {
		v := v
		signed(fmt.Sprintf("version-%d", v), expReject, func(b *blockchain.Block) { b.Header.Version = v })
	}
	// -- timestamp / slot
	bt := n.Cfg.BlockTime
	tipSlotStart := tip.Timestamp - (tip.Timestamp-n.Cfg.GenesisTimestamp)%bt
	signed("ts-same-slot", expReject, func(b *blockchain.Block) { b.Header.Timestamp = tip.Timestamp })
	signed("ts-same-slot-end", expReject, func(b *blockchain.Block) { b.Header.Timestamp = tipSlotStart + bt - 1 })
	if tip.Height > 0 {
		signed("ts-past-slot", expReject, func(b *blockchain.Block) { b.Header.Timestamp = tipSlotStart - bt })
		signed("ts-genesis", expReject, func(b *blockchain.Block) { b.Header.Timestamp = n.Cfg.GenesisTimestamp })
	}
	signed("ts-before-genesis", expReject, func(b *blockchain.Block) { b.Header.Timestamp = n.Cfg.GenesisTimestamp - 1 - uint32(r.Intn(1000)) })
	signed("ts-future", expReject, func(b *blockchain.Block) { b.Header.Timestamp = 0xfffff000 + uint32(r.Intn(0xfff)) })
	signed("ts-future-year", expReject, func(b *blockchain.Block) { b.Header.Timestamp = p.cfg.now + 400*86400 + uint32(r.Intn(1000)) })
	if bt > 1 {
		off := (b0.Header.Timestamp - n.Cfg.GenesisTimestamp) % bt
		signed("ts-within-slot", expAccept, func(b *blockchain.Block) {
			b.Header.Timestamp = b.Header.Timestamp - off + (off+1+uint32(r.Intn(int(bt-1))))%bt
		})
	}
	gens := p.w.gensAt(tip.Height + 1)
	if len(gens) > 1 {
		// a later slot of another generator, content and signer unchanged
		signed("ts-other-slot", expReject, func(b *blockchain.Block) { b.Header.Timestamp += bt })
	}
	built("ts-next-round", expAccept, func(oo *node.BlockOpts) { oo.SlotsAhead = slots + len(gens) })
	// -- height and link (synchroniser path)
	signed("height+1", expReject, func(b *blockchain.Block) { b.Header.Height++ })
	signed("height-1", expReject, func(b *blockchain.Block) { b.Header.Height-- })
	signed("height+2", expReject, func(b *blockchain.Block) { b.Header.Height += 2 })
	signed("prev-garbage", expReject, func(b *blockchain.Block) { b.Header.PreviousBlockID = garbage(r, 32) })
	if tip.Height > 0 {
		signed("prev-grandparent", expReject, func(b *blockchain.Block) { b.Header.PreviousBlockID = append([]byte{}, tip.PreviousBlockID...) })
	}
	signed("prev-31-bytes", expReject, func(b *blockchain.Block) { b.Header.PreviousBlockID = b.Header.PreviousBlockID[:31] })
	signed("prev-empty", expReject, func(b *blockchain.Block) { b.Header.PreviousBlockID = codec.Hex{} })
	// -- generator and signer
	var others []*node.Validator
	for _, v := range n.Validators {
		if v != gen {
			others = append(others, v)
		}
	}
	if len(others) > 0 {
		other := others[r.Intn(len(others))]
		built("generator-other", expReject, func(oo *node.BlockOpts) { oo.Generator = other; oo.MaxHeightGenerated = nil })
		built("signer-other", expReject, func(oo *node.BlockOpts) { oo.SignWith = other })
		// address of another validator, still signed by the slot's generator
		signed("generator-address-other", expReject, func(b *blockchain.Block) { b.Header.GeneratorAddress = append([]byte{}, other.Address...) })
	}
	// the block of the owner of the slot according to a differently derived list / of a standby validator (applist.go)
	res = append(res, p.ownerMutants(base, b0)...)
	signed("generator-19-bytes", expReject, func(b *blockchain.Block) { b.Header.GeneratorAddress = b.Header.GeneratorAddress[:19] })
	signed("generator-21-bytes", expReject, func(b *blockchain.Block) {
		b.Header.GeneratorAddress = append(append([]byte{}, b.Header.GeneratorAddress...), 0)
	})
	// -- signature
	unsigned("signature-bitflip", expReject, func(b *blockchain.Block) { headerFieldMutators["Signature"](r, b.Header) })
	unsigned("signature-63-bytes", expReject, func(b *blockchain.Block) { b.Header.Signature = b.Header.Signature[:63] })
	unsigned("signature-65-bytes", expReject, func(b *blockchain.Block) { b.Header.Signature = append(b.Header.Signature, 0) })
	unsigned("signature-empty", expReject, func(b *blockchain.Block) { b.Header.Signature = codec.Hex{} })
	unsigned("signature-zero", expReject, func(b *blockchain.Block) { b.Header.Signature = make([]byte, 64) })
	unsigned("chain-id-other", expReject, func(b *blockchain.Block) {
		cid := append([]byte{}, n.Cfg.ChainID...)
		cid[r.Intn(len(cid))] ^= 1 << uint(r.Intn(8))
		b.Header.Sign(cid, gen.EdPriv)
	})
	unsigned("chain-id-empty", expReject, func(b *blockchain.Block) { b.Header.Sign([]byte{}, gen.EdPriv) })
	// -- BFT header fields
	signed("mhp+1", expReject, func(b *blockchain.Block) { b.Header.MaxHeightPrevoted++ })
	if b0.Header.MaxHeightPrevoted > 0 {
		signed("mhp-1", expReject, func(b *blockchain.Block) { b.Header.MaxHeightPrevoted-- })
	}
	// the generator's latest earlier block inside the BFT window contradicts a lower maxHeightGenerated
	if prev := p.lastHeightBy(gen); prev > 0 {
		signed("mhg-contradicting", expReject, func(b *blockchain.Block) { b.Header.MaxHeightGenerated = uint32(r.Intn(int(prev))) })
	}
	signed("mhg-no-vote", expAccept, func(b *blockchain.Block) { b.Header.MaxHeightGenerated = b.Header.Height })
	signed("implies-max-prevotes-flip", expAccept, func(b *blockchain.Block) { b.Header.ImpliesMaxPrevotes = !b.Header.ImpliesMaxPrevotes })
	// -- roots and validatorsHash
	for _, f := range []string{"TransactionRoot", "AssetRoot", "EventRoot", "StateRoot", "ValidatorsHash"} {
		f := f
		signed("garbage-"+f, expReject, func(b *blockchain.Block) { headerFieldMutators[f](r, b.Header) })
		signed("short-"+f, expReject, func(b *blockchain.Block) {
			v := reflect.ValueOf(b.Header).Elem().FieldByName(f)
			v.SetBytes(append([]byte{}, v.Bytes()[:31]...))
		})
	}
	signed("empty-EventRoot", expReject, func(b *blockchain.Block) { b.Header.EventRoot = codec.Hex{} })
	signed("empty-ValidatorsHash", expReject, func(b *blockchain.Block) { b.Header.ValidatorsHash = codec.Hex{} })
	// validatorsHash of another parameter set
	if vc := p.randomChange(); vc != nil {
		if vh, err := node.ValidatorsHashOf(vc.Validators, vc.CertificateThreshold+1); err == nil {
			signed("validators-hash-other-set", expReject, func(b *blockchain.Block) { b.Header.ValidatorsHash = vh })
		}
	}
	// -- aggregate commit
	_, mhpc, mhc := n.BFTHeights()
	empty := func(h uint32) *blockchain.AggregateCommit {
		return &blockchain.AggregateCommit{Height: h, AggregationBits: codec.Hex{}, CertificateSignature: codec.Hex{}}
	}
	withAC := func(label, expect string, ac *blockchain.AggregateCommit) {
		if ac != nil {
			built(label, expect, func(oo *node.BlockOpts) { oo.AggregateCommit = ac })
		}
	}
	withAC("ac-empty-height+1", expReject, empty(mhc+1))
	if mhc > 0 {
		withAC("ac-empty-height-1", expReject, empty(mhc-1))
	}
	if len(b0.Header.AggregateCommit.AggregationBits) != 0 {
		withAC("ac-dropped", expAccept, empty(mhc))
	}
	withAC("ac-bits-only", expReject, &blockchain.AggregateCommit{Height: mhc, AggregationBits: codec.Hex{1}, CertificateSignature: codec.Hex{}})
	withAC("ac-signature-only", expReject, &blockchain.AggregateCommit{Height: mhc + 1, AggregationBits: codec.Hex{}, CertificateSignature: garbage(r, 96)})
	if mhc > 0 {
		withAC("ac-height-certified", expReject, p.aggregateFor(mhc, 0))
		if mhc > 1 {
			withAC("ac-height-below-certified", expReject, p.aggregateFor(mhc-1, 0))
		}
	}
	if mhpc+1 <= tip.Height {
		withAC("ac-height-above-precommitted", expReject, p.aggregateFor(mhpc+1, 0))
	}
	bound := nextParamsBound(n)
	if bound > mhc {
		h := mhc + 1 + uint32(r.Intn(int(bound-mhc)))
		good := p.aggregateFor(h, 0)
		if good != nil {
			withAC("ac-valid", expAccept, good)
			tb := &blockchain.AggregateCommit{Height: h, AggregationBits: append([]byte{}, good.AggregationBits...), CertificateSignature: good.CertificateSignature}
			bit := r.Intn(len(p.paramsVals(h)))
			tb.AggregationBits[bit/8] ^= 1 << uint(bit%8)
			withAC("ac-bits-tampered", expReject, tb)
			flipped := append([]byte{}, good.CertificateSignature...)
			flipped[1+r.Intn(len(flipped)-1)] ^= 1 << uint(r.Intn(8))
			withAC("ac-signature-bitflip", expReject, &blockchain.AggregateCommit{Height: h, AggregationBits: good.AggregationBits, CertificateSignature: flipped})
			withAC("ac-signature-garbage", expReject, &blockchain.AggregateCommit{Height: h, AggregationBits: good.AggregationBits, CertificateSignature: garbage(r, 96)})
			withAC("ac-signature-short", expReject, &blockchain.AggregateCommit{Height: h, AggregationBits: good.AggregationBits, CertificateSignature: good.CertificateSignature[:95]})
			if h+1 <= mhpc {
				withAC("ac-signature-of-other-height", expReject, &blockchain.AggregateCommit{Height: h + 1, AggregationBits: good.AggregationBits, CertificateSignature: good.CertificateSignature})
			}
			// a valid aggregate signature of another block (different message, well-formed point)
			if oth := p.aggregateFor(mhc, 0); oth != nil && mhc != h && mhc > 0 {
				withAC("ac-signature-of-other-block", expReject, &blockchain.AggregateCommit{Height: h, AggregationBits: good.AggregationBits, CertificateSignature: oth.CertificateSignature})
			}
			if k := len(p.paramsVals(h)); k > 1 {
				if weak := p.aggregateFor(h, 1); weak != nil && p.weightOfFirst(h, 1) < p.certThreshold(h) {
					withAC("ac-below-threshold", expReject, weak)
				}
			}
			// signer SUBSETS at arbitrary positions of the key list: the commit is valid iff the TRUE weight
			// of the flagged validators reaches the certificate threshold - not the weight of as many
			// leading / trailing positions, not the number of signers, not the weight of the others
			if ks := p.keyedSet(h); ks != nil {
				for _, sm := range ks.subsetAlterations(r) {
					n0 := len(res)
					withAC(sm.label, sm.expect, ks.aggregate(sm.positions))
					for i := n0; i < len(res); i++ {
						res[i].always = sm.expect == expAccept
					}
				}
			}
		}
	}
	if bound < mhpc {
		// LIP-0061: the last block of the outgoing validator set must be certified first
		exp := expKnown
		if acBoundEnforced {
			exp = expReject
		}
		withAC("ac-skips-params-change", exp, p.aggregateFor(bound+1, 0))
	}
	// -- payload
	if len(b0.Transactions) > 0 {
		unsignedPayload := func(label string, f func(b *blockchain.Block)) {
			// header (and its signature) untouched, payload altered
			b, err := node.CopyBlock(b0)
			if err == nil {
				f(b)
				add(label, expReject, b)
			}
		}
		unsignedPayload("payload-missing-tx", func(b *blockchain.Block) { b.Transactions = b.Transactions[:len(b.Transactions)-1] })
		if len(b0.Transactions) > 1 {
			unsignedPayload("payload-reordered", func(b *blockchain.Block) {
				b.Transactions[0], b.Transactions[1] = b.Transactions[1], b.Transactions[0]
			})
		}
		unsignedPayload("payload-tx-altered", func(b *blockchain.Block) {
			b.Transactions[0].Fee++
			b.Transactions[0].Init()
		})
	}
	{
		extra := p.tx(node.TxOK, node.TxOK, 3)
		b, err := node.CopyBlock(b0)
		if err == nil {
			b.Transactions = append(b.Transactions, extra)
			add("payload-extra-tx", expReject, b)
		}
	}
	if len(b0.Assets) > 0 {
		b, err := node.CopyBlock(b0)
		if err == nil {
			b.Assets[0].Data = append(append([]byte{}, b.Assets[0].Data...), ' ')
			add("asset-altered", expReject, b)
		}
		b2, err := node.CopyBlock(b0)
		if err == nil {
			b2.Assets = b2.Assets[1:]
			add("asset-missing", expReject, b2)
		}
	}
	// assets not sorted / duplicated, roots consistent with the (bad) list
	signed("assets-unsorted", expReject, func(b *blockchain.Block) {
		b.Assets = append([]*blockchain.BlockAsset{{Module: "zzz", Data: []byte{1}}}, b.Assets...)
		b.Assets = append(b.Assets, &blockchain.BlockAsset{Module: "aaa", Data: []byte{2}})
		b.Header.AssetRoot = blockchain.BlockAssets(b.Assets).GetRoot()
	})
	signed("assets-duplicate", expReject, func(b *blockchain.Block) {
		b.Assets = append([]*blockchain.BlockAsset{{Module: "aaa", Data: []byte{1}}, {Module: "aaa", Data: []byte{2}}}, b.Assets...)
		b.Header.AssetRoot = blockchain.BlockAssets(b.Assets).GetRoot()
	})
	// statically invalid transactions; every derived field is consistent with the payload
	badTx := func(label string, f func(tx *blockchain.Transaction)) {
		tx := p.tx(node.TxOK, node.TxOK, 2)
		f(tx)
		tx.Init()
		built("tx-static-"+label, expReject, func(oo *node.BlockOpts) {
			oo.Txs = append(append([]*blockchain.Transaction{}, oo.Txs...), tx)
		})
	}
	badTx("module", func(tx *blockchain.Transaction) { tx.Module = "to ken" })
	badTx("command", func(tx *blockchain.Transaction) { tx.Command = "trans-fer" })
	// names made of letters / digits that are NOT ASCII (the rule is ^[a-zA-Z0-9]*$, not "Unicode letter or digit"),
	// each in NFC form so that the codec keeps the bytes
	badTx("module-cyrillic", func(tx *blockchain.Transaction) { tx.Module = "t\u043eken" })
	badTx("command-accent", func(tx *blockchain.Transaction) { tx.Command = "transf\u00e9r" })
	badTx("module-arabic-digit", func(tx *blockchain.Transaction) { tx.Module = "token\u0663" })
	badTx("command-fullwidth", func(tx *blockchain.Transaction) { tx.Command = "\uff54ransfer" })
	badTx("module-underscore", func(tx *blockchain.Transaction) { tx.Module = "to_ken" })
	badTx("sender-key-31", func(tx *blockchain.Transaction) { tx.SenderPublicKey = tx.SenderPublicKey[:31] })
	badTx("no-signature", func(tx *blockchain.Transaction) { tx.Signatures = []codec.Hex{} })
	badTx("signature-63", func(tx *blockchain.Transaction) { tx.Signatures[0] = tx.Signatures[0][:63] })
	badTx("second-signature-3", func(tx *blockchain.Transaction) { tx.Signatures = append(tx.Signatures, codec.Hex{1, 2, 3}) })
	if heavy {
		badTx("params-too-long", func(tx *blockchain.Transaction) {
			tx.Params = append([]byte{0, 0}, make([]byte, blockchain.MaxTransactionParamsSize-1)...)
		})
	}
	// application verdicts
	verdict := func(label, expect string, v, e byte) {
		tx := p.tx(v, e, 2)
		built(label, expect, func(oo *node.BlockOpts) {
			txs := append([]*blockchain.Transaction{}, oo.Txs...)
			i := r.Intn(len(txs) + 1)
			txs = append(txs[:i], append([]*blockchain.Transaction{tx}, txs[i:]...)...)
			oo.Txs = txs
		})
	}
	verdict("verify-invalid", expReject, node.TxInvalid, node.TxOK)
	verdict("verify-pending", expReject, node.TxFail, node.TxOK)
	verdict("verify-error", expReject, node.TxError, node.TxOK)
	verdict("execute-invalid", expReject, node.TxOK, node.TxInvalid)
	verdict("execute-error", expReject, node.TxOK, node.TxError)
	verdict("execute-fail", expAccept, node.TxOK, node.TxFail)
	verdict("tx-ok", expAccept, node.TxOK, node.TxOK)
	for _, hk := range []node.Hook{node.HookVerifyAssets, node.HookBeforeTxs, node.HookAfterTxs, node.HookCommit} {
		hk := hk
		built("abi-fail-"+string(hk), expReject, func(oo *node.BlockOpts) { oo.FailHook = hk })
	}
	if b, err := n.BuildBlock(base); err == nil {
		res = append(res, mutant{label: "abi-fail-InitStateMachine", expect: expReject, b: b, injectInit: true})
	}
	// application events / parameter changes
	built("extra-event", expAccept, func(oo *node.BlockOpts) {
		oo.AfterEvents = append(append([]*blockchain.Event{}, oo.AfterEvents...), p.event("extra"))
	})
	signed("event-root-of-other-events", expReject, func(b *blockchain.Block) {
		evs := node.ExpectedEvents(b.Header.Height, b.Assets, b.Transactions)
		evs = append(evs, &blockchain.Event{Module: "ghost", Name: "ev", Data: []byte{1}, Topics: []codec.Hex{{9}}, Height: b.Header.Height, Index: uint32(len(evs))})
		b.Header.EventRoot, _ = blockchain.CalculateEventRoot(evs)
	})
	if o.ValidatorChange == nil {
		if vc := p.randomChange(); vc != nil {
			built("params-change-valid", expAccept, func(oo *node.BlockOpts) { oo.ValidatorChange = vc })
			// change executed but the header keeps the hash of the current parameters
			cur := append([]byte{}, b0.Header.ValidatorsHash...)
			built("params-change-hash-stale", p.staleExpect(vc), func(oo *node.BlockOpts) {
				oo.ValidatorChange = vc
				oo.Mutate = func(b *blockchain.Block) { b.Header.ValidatorsHash = cur }
			})
			low := *vc
			low.PrecommitThreshold = 0
			for _, v := range vc.Validators {
				low.PrecommitThreshold += v.BFTWeight
			}
			low.PrecommitThreshold = low.PrecommitThreshold / 3 // below floor(W/3)+1
			built("params-change-precommit-low", expReject, func(oo *node.BlockOpts) { oo.ValidatorChange = &low })
			high := *vc
			high.CertificateThreshold = 1
			for _, v := range vc.Validators {
				high.CertificateThreshold += v.BFTWeight
			}
			built("params-change-certificate-high", expReject, func(oo *node.BlockOpts) { oo.ValidatorChange = &high })
			if len(n.Validators) > n.Cfg.BatchSize {
				big := *vc
				big.Validators = nil
				tot := uint64(0)
				for _, v := range n.Validators {
					big.Validators = append(big.Validators, v.Labi(1))
					tot++
				}
				big.PrecommitThreshold, big.CertificateThreshold = node.DefaultThreshold(tot), node.DefaultThreshold(tot)
				built("params-change-above-batch-size", expReject, func(oo *node.BlockOpts) { oo.ValidatorChange = &big })
			}
		}
	}
	// payload size (transactions are statically valid)
	if heavy {
		for _, d := range []int{0, 1} {
			if txs := p.payloadOfSize(maxTxLen + d); txs != nil {
				exp, label := expAccept, "payload-size-at-limit"
				if d > 0 {
					exp, label = expReject, "payload-size-limit+1"
				}
				built(label, exp, func(oo *node.BlockOpts) { oo.Txs = txs })
			}
		}
		built("payload-size-large", expReject, func(oo *node.BlockOpts) {
			oo.Txs = []*blockchain.Transaction{p.tx(0, 0, 9000), p.tx(0, 0, 9000)}
		})
	}
	return res
}

// staleExpect: keeping the current validatorsHash is only wrong if the change alters the hash
// (the hash covers BLS keys, weights and the certificate threshold, not the order or the precommit threshold).
func (p *planner) staleExpect(vc *node.ValidatorChange) string {
	cur, err := p.n.BFTParams(p.n.Height() + 1)
	if err != nil {
		return expReject
	}
	vh, err := node.ValidatorsHashOf(vc.Validators, vc.CertificateThreshold)
	if err == nil && bytes.Equal(vh, cur.ValidatorsHash()) {
		return expAccept
	}
	return expReject
}

func (p *planner) paramsVals(h uint32) []int {
	params, err := p.n.BFTParams(h)
	if err != nil {
		return []int{0}
	}
	return make([]int, len(params.Validators()))
}

func (p *planner) certThreshold(h uint32) uint64 {
	params, err := p.n.BFTParams(h)
	if err != nil {
		return 0
	}
	return params.CertificateThreshold()
}

func (p *planner) weightOfFirst(h uint32, k int) uint64 {
	params, err := p.n.BFTParams(h)
	if err != nil {
		return 0
	}
	w := uint64(0)
	for i, v := range params.Validators() {
		if i < k {
			w += v.BFTWeight()
		}
	}
	return w
}

// lastHeightBy returns the height of the newest block by v inside the BFT window (0 if none).
func (p *planner) lastHeightBy(v *node.Validator) uint32 {
	tip := p.n.Height()
	window := uint32(3 * p.n.Cfg.BatchSize)
	for h := tip; h > 0 && tip-h < window; h-- {
		hd, err := p.n.HeaderAt(h)
		if err != nil {
			return 0
		}
		if bytes.Equal(hd.GeneratorAddress, v.Address) {
			return h
		}
	}
	return 0
}

// payloadOfSize returns statically valid transactions whose encoded sizes sum to exactly total.
func (p *planner) payloadOfSize(total int) []*blockchain.Transaction {
	t1 := p.tx(0, 0, 7000)
	rest := total - t1.Size()
	guess := rest - 200
	for i := 0; i < 8; i++ {
		if guess < 0 || guess > blockchain.MaxTransactionParamsSize-2 {
			return nil
		}
		t2 := p.tx(0, 0, guess)
		if d := rest - t2.Size(); d == 0 {
			return []*blockchain.Transaction{t1, t2}
		} else {
			guess += d
		}
	}
	return nil
}

// plan builds one case: a history of honest blocks with full mutation sets at some states.
func planCase(rng *rand.Rand, c caseCfg, blocks int, probeEvery int) ([]string, error) {
	p, err := newPlanner(rng, c)
	if err != nil {
		return nil, err
	}
	defer p.n.Close()
	probes := 0
	for i := 0; i < blocks; i++ {
		o := p.randomOpts()
		b0, err := p.buildHonest(&o)
		if err != nil {
			return p.ops, fmt.Errorf("build: %w", err)
		}
		label, vc, next := "base", o.ValidatorChange, b0
		probe := probeEvery > 0 && (rng.Intn(probeEvery) == 0 || i == blocks-1)
		if !probe && probeEvery > 0 && (rng.Intn(2) == 0 || p.w.hasStandby(p.n.Height()+1)) {
			// between the probes: who may generate in this slot (a few candidates, all refused) - at every
			// block while the application's list has standby validators, at every other block otherwise
			for _, m := range p.ownerMutants(p.baseOpts(o, b0), b0) {
				if m.expect == expReject {
					p.emit("cand", m.label, m.expect, p.viaOf(m.b), m.b, false)
				}
			}
		}
		if probe {
			probes++
			var harmless []mutant
			for _, m := range p.mutants(o, b0, probes%3 == 1) {
				if m.expect == expAccept {
					harmless = append(harmless, m)
					continue
				}
				p.emit("cand", m.label, m.expect, p.viaOf(m.b), m.b, m.injectInit)
			}
			// Accepted candidates cost the runner a rebuild of the node: only a sample of the
			// harmless alterations is offered as candidate, another one continues the history.
			rng.Shuffle(len(harmless), func(a, b int) { harmless[a], harmless[b] = harmless[b], harmless[a] })
			// the aggregate-commit subset alterations are offered at every probe, the others are sampled
			sort.SliceStable(harmless, func(a, b int) bool { return harmless[a].always && !harmless[b].always })
			sampled := 0
			for _, m := range harmless {
				if m.always || sampled < maxAcceptedCandidates {
					p.emit("cand", m.label, m.expect, p.viaOf(m.b), m.b, m.injectInit)
				}
				if !m.always {
					sampled++
				}
			}
			if p.n.Height() > 0 {
				p.emit("cand", "identical-tip", expIgnore, "P", p.n.Tip(), false)
			}
			if k := len(harmless) - 1; k >= 0 && !harmless[k].always && sampled > maxAcceptedCandidates && rng.Intn(2) == 0 {
				m := harmless[k] // a harmless alteration that was not offered as candidate continues the history
				label, vc, next = m.label, m.vc, m.b
			}
		}
		if err := p.applyBlock(label, vc, next); err != nil {
			return p.ops, err
		}
		if rng.Intn(25) == 0 {
			p.ops = append(p.ops, "restart")
			if err := p.n.Restart(); err != nil {
				return p.ops, err
			}
		}
	}
	return p.ops, nil
}

func nowUnix() uint32 { return uint32(time.Now().Unix()) }
