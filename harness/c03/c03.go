// Package c03: "only fully valid blocks extend the chain; rejected blocks change nothing".
//
// The planner (plan.go) drives a real node (verifharness/node: consensus.Executer over in-memory
// pebble, mock application, real keys) through generated histories — transactions, assets,
// application events, missed slots, validator changes, aggregate commits, finality advancing,
// restarts — and, at many states, derives from the valid successor every single alteration named
// by the property. Every op line carries the candidate twice: as abstract facts for the Lean model
// (Model/Verify.lean) and as the encoded block for the implementation runner below.
//
// Compared per candidate: (a) accept/reject and the error class with the model; (b) model-free:
// a rejected block leaves the database dump, tip, finalized height, BFT store, application state
// and the event stream untouched, an accepted block is exactly the block offered, and every rule the
// property lists is enforced (the expectation R/A comes from how the candidate was constructed).
package c03

import (
	"bytes"
	"encoding/hex"
	"errors"
	"fmt"
	"math/rand"
	"strconv"
	"strings"
	"time"

	"github.com/LiskHQ/lisk-engine/pkg/blockchain"

	"verifharness/corr"
	"verifharness/node"
)

type prop struct{}

func init() { corr.Register(prop{}) }

func (prop) ID() string                 { return "C03" }
func (prop) Parallel() int              { return 4 }
func (prop) CaseTimeout() time.Duration { return 10 * time.Minute }

func (prop) Generate(rng *rand.Rand, tier string) []corr.Case {
	// weights: "rand" = mostly 1, some 1..3; "heavy" = one heavy validator and light ones (the heavy one
	// alone reaches the thresholds); "steps" = pairwise different weights 1,2,4,...; "large" = weights
	// around 2^61 next to weight 1. Unequal weights are what separates "the weight of the validators
	// flagged in an aggregate commit" from any other sum (see subsets.go).
	type shape struct {
		nv, extra, batch int
		weights          string
	}
	// "standby": some entries of the application's list have BFT weight 0 (standby validators: they own their
	// slots and sign with their own generator key, they do not vote and are no BFT validators) - in genesis and,
	// through the validator changes of the history, later; the batch size counts the voting entries only.
	shapes := []shape{{4, 1, 4, "heavy"}, {1, 1, 3, "rand"}, {5, 2, 6, "steps"}, {3, 2, 4, "rand"}, {7, 1, 7, "heavy"}, {4, 2, 5, "large"},
		{4, 1, 3, "standby"}, {6, 2, 5, "standby"}}
	rounds, blocks, probeEvery := 1, 20, 5
	if tier == "thorough" {
		rounds, blocks, probeEvery = 6, 60, 4
		shapes = append(shapes, shape{9, 1, 10, "heavy"}, shape{2, 2, 4, "rand"})
	}
	now := nowUnix()
	var cases []corr.Case
	for r := 0; r < rounds; r++ {
		for _, s := range shapes {
			c := caseCfg{nv: s.nv, extra: s.extra, batch: s.batch, seed: rng.Int63n(1 << 40), blockTime: 10, now: now}
			c.genesisTS = now - 1_000_000
			c.genesisTS -= c.genesisTS % c.blockTime
			c.weights = make([]uint64, s.nv)
			profile := s.weights
			if r > 0 && r%2 == 0 && s.weights != "standby" { // (the batch size of a standby shape counts its voting entries only)
				profile = []string{"rand", "heavy", "steps", "large"}[rng.Intn(4)]
			}
			for i := range c.weights {
				c.weights[i] = 1
				switch profile {
				case "rand":
					if rng.Intn(5) == 0 {
						c.weights[i] = uint64(1 + rng.Intn(3))
					}
				case "steps":
					c.weights[i] = 1 << uint(i)
				case "large":
					if i%2 == 0 {
						c.weights[i] = 1<<61 + uint64(rng.Intn(1000))
					}
				}
			}
			if profile == "heavy" {
				c.weights[rng.Intn(s.nv)] = uint64(2*s.nv + 2) // W = 3n+1, thresholds floor(2W/3)+1 = 2n+1: the heavy validator alone reaches them, the n-1 light ones together do not
			}
			if profile == "steps" {
				rng.Shuffle(s.nv, func(a, b int) { c.weights[a], c.weights[b] = c.weights[b], c.weights[a] })
			}
			if profile == "standby" {
				// 1 .. nv/3 standby entries at random positions, the others weight 1 or 2 (at least two voting entries)
				k := 1 + rng.Intn(max(1, s.nv/3))
				for _, i := range rng.Perm(s.nv)[:k] {
					c.weights[i] = 0
				}
				for i := range c.weights {
					if c.weights[i] != 0 && rng.Intn(4) == 0 {
						c.weights[i] = 2
					}
				}
			}
			nb := blocks + 3*s.batch
			ops, err := planCase(rng, c, nb, probeEvery)
			tag := fmt.Sprintf("nv%d-%s", s.nv, profile)
			if err != nil {
				// the planner could not continue (an honest block was refused): keep what was planned
				// and make the failure visible to the runner
				ops = append(ops, "planfail "+strings.ReplaceAll(err.Error(), " ", "_"))
				tag += "-planfail"
			}
			cases = append(cases, corr.Case{Ops: ops, Tag: tag})
		}
	}
	return cases
}

// ---- error classes ----

// The acceptance path has no sentinel errors (every rule ends in fmt.Errorf), so the class of a
// rejection is recovered from fixed fragments of the format strings; failures of the application
// are recognised by the sentinel errors of the mock.
var errFragments = []struct{ frag, class string }{
	{"previous block id must be 32 bytes", "v-prev-len"},
	{"generator address must be 20 bytes", "v-gen-len"},
	{"block signature must not be empty", "v-sig-len"},
	{"state root must be 32 bytes", "v-state-root-len"},
	{"does not satisfy alphanumeric", "tx-static"},
	{"params size", "tx-static"},
	{"senderPublicKey must have length", "tx-static"},
	{"signatures must have length", "tx-static"},
	{"transaction root must match", "tx-root"},
	{"assets must be sorted", "assets-order"},
	{"assets module must be unique", "assets-dup"},
	{"assets root must match", "asset-root"},
	{"block header version", "version"},
	{"is not consecutive from last block height", "height"},
	{"invalid previous block id", "prev-id"},
	{"transactions size", "payload-size"},
	{"future block with timestamp", "future"},
	{"less or equal to last block slot", "past-slot"},
	{"invalid block generator", "generator"},
	{"invalid maxHeight prevoted", "mhp"},
	{"received contradicting block header", "contradicting"},
	{"aggregation bits or signature is empty", "ac-empty"},
	{"aggregate commit height must be strictly increasing", "ac-low"},
	{"higher than maxHeightPrecommited", "ac-high"},
	{"higher than next BFT params", "ac-next-params"},
	{"invalid certificate received", "ac-signature"},
	{"invalid signature", "signature"},
	{"failed to execute transaction", "tx-verify"},
	{"invalid transaction", "tx-execute"},
	{"invalid validators size", "params"},
	{"invalid BFT weight", "params"},
	{"invalid precommit threshold", "params"},
	{"invalid validatorsHash", "validators-hash"},
	{"invalid number of events", "event-count"},
	{"invalid event root", "event-root"},
}

var hookClass = map[node.Hook]string{
	node.HookInitStateMachine: "abi-init", node.HookVerifyAssets: "abi-verify-assets", node.HookBeforeTxs: "abi-before",
	node.HookVerifyTx: "abi-verify-tx", node.HookExecuteTx: "abi-execute-tx", node.HookAfterTxs: "abi-after", node.HookCommit: "commit",
}

func classify(err error, abi *node.MockABI, callsBefore int) string {
	var pe *node.PanicError
	if errors.As(err, &pe) {
		return "panic"
	}
	if errors.Is(err, node.ErrInjected) || errors.Is(err, node.ErrStateRootMismatch) {
		// the failing hook is the last call that returned an error
		for i := len(abi.Calls) - 1; i >= callsBefore; i-- {
			if abi.Calls[i].Err != "" {
				if c, ok := hookClass[abi.Calls[i].Hook]; ok {
					return c
				}
				return "abi-" + string(abi.Calls[i].Hook)
			}
		}
		return "abi"
	}
	msg := err.Error()
	for _, f := range errFragments {
		if strings.Contains(msg, f.frag) {
			return f.class
		}
	}
	return "unknown:" + strings.ReplaceAll(msg, " ", "_")
}

// ---- runner ----

type runner struct {
	n       *node.Node
	cfg     node.Config
	applied []*blockchain.Block
	fails   []corr.Fail
	cached  *snapshot // state after the last candidate if it was verified to be unchanged
	// volReported: the volatile-state oracle (volatile.go) fired in this case already
	volReported bool
	// onceSigs: signatures of the validator-list oracles (applist.go) reported in this case already
	onceSigs map[string]bool
}

type snapshot struct {
	dump, bft, abi string
	vol            string // volatile executer state (volatile.go)
	tip            []byte
	fin            uint32
}

func (r *runner) snap() snapshot {
	if r.cached != nil {
		return *r.cached
	}
	return snapshot{dump: r.n.DumpDBString(), bft: r.n.BFTDump(), abi: r.n.ABI.String(), vol: volatileState(r.n), tip: append([]byte{}, r.n.Tip().Header.ID...), fin: r.n.Finalized()}
}

func (r *runner) fail(op int, sig, detail string) {
	r.fails = append(r.fails, corr.Fail{Sig: sig, Detail: detail, Op: op})
}

func (r *runner) close() {
	r.cached = nil
	if r.n != nil {
		r.n.Close()
		r.n = nil
	}
}

func (r *runner) reset(w []string) error {
	r.close()
	if len(w) != 13 {
		return fmt.Errorf("reset: %d tokens", len(w))
	}
	nv, extra, seed, weights, err := parseGoToken(w[12])
	if err != nil {
		return err
	}
	u := func(s string) uint64 { x, _ := strconv.ParseUint(s, 10, 64); return x }
	r.cfg = node.Config{NumValidators: nv, ExtraValidators: extra, BatchSize: int(u(w[1])), Seed: seed, Weights: weights,
		GenesisTimestamp: uint32(u(w[2])), BlockTime: uint32(u(w[3])), PrecommitThreshold: u(w[9]), CertificateThreshold: u(w[10])}
	r.applied = nil
	return r.fresh()
}

// fresh builds a new node and replays the applied history.
func (r *runner) fresh() error {
	r.close()
	n, err := node.New(r.cfg)
	if err != nil {
		return err
	}
	r.n = n
	for _, b := range r.applied {
		if res := n.ProcessResult(b); res.Err != nil || !res.Applied {
			return fmt.Errorf("replay of height %d failed: %v", b.Header.Height, res.Err)
		}
	}
	n.DrainEvents()
	n.ABI.ResetCalls()
	return nil
}

func renderEvents(evs []node.Event) string {
	if len(evs) == 0 {
		return "-"
	}
	var out []string
	for _, e := range evs {
		switch e.Kind {
		case node.EvFinalize:
			out = append(out, fmt.Sprintf("fin:%d->%d@%d", e.Original, e.Next, e.Height))
		case node.EvNew:
			out = append(out, fmt.Sprintf("new:%d:%s:%d", e.Height, corr.Hex(e.BlockID), len(e.Events)))
		case node.EvValidators:
			out = append(out, fmt.Sprintf("val:%d:%d:%d", len(e.Change.NextValidators), e.Change.PrecommitThreshold, e.Change.CertificateThreshold))
		default:
			out = append(out, e.Kind)
		}
	}
	return strings.Join(out, ";")
}

// candidate processes one cand/apply op.
func (r *runner) candidate(i int, w []string) string {
	if len(w) != 33 {
		return "bad-op"
	}
	kind, label, expect, via, pre := w[0], w[1], w[2], w[3], w[4]
	n := r.n
	if corr.Hex(n.Tip().Header.ID) != pre {
		return "skip" // the op was planned for another state (shrunken case)
	}
	raw, err := hex.DecodeString(w[32])
	if err != nil {
		return "bad-op"
	}
	b, err := blockchain.NewBlock(raw)
	if err != nil {
		return "undecodable"
	}
	if strings.HasPrefix(label, "unsigned-") {
		// the primitive itself: no key holder's key verifies the old signature over the altered header
		for _, v := range n.Validators {
			if b.Header.VerifySignature(n.Cfg.ChainID, v.EdPub) {
				r.fail(i, "c03-signature-does-not-cover:"+strings.TrimPrefix(label, "unsigned-"), fmt.Sprintf("%s: signature still verifies under the key of %s", label, v))
			}
		}
	}
	before := r.snap()
	r.cached = nil
	if pending := n.DrainEvents(); len(pending) != 0 {
		r.fail(i, "c03-harness-stray-events", fmt.Sprint(node.EventStrings(pending)))
	}
	n.ABI.ResetCalls()
	var perr error
	fc := n.ForkChoice(b)
	if via == "P" && fc != "valid" && fc != "identical" {
		return "other"
	}
	injectInit := w[25][0] == '0'
	if injectInit {
		n.ABI.InjectFailure(node.HookInitStateMachine, 1)
	}
	if via == "P" {
		perr = n.ProcessResult(b).Err
	} else {
		// what the synchronisers do with every downloaded block
		if perr = b.Validate(); perr == nil {
			perr = n.ProcessValidated(b, false)
		}
	}
	if injectInit {
		n.ABI.InjectFailure(node.HookInitStateMachine, 0)
	}
	events := n.DrainEvents()
	tip := n.Tip().Header
	accepted := bytes.Equal(tip.ID, b.Header.ID) && !bytes.Equal(before.tip, tip.ID)
	if len(n.ABI.Inconsistencies) != 0 {
		r.fail(i, "c03-application-inconsistency", label+": "+strings.Join(n.ABI.Inconsistencies, "; "))
		n.ABI.Inconsistencies = nil
	}
	var out string
	switch {
	case accepted:
		mhp, mhpc, mhc := n.BFTHeights()
		out = fmt.Sprintf("acc h=%d fin=%d bft=%d/%d/%d ev=%s", tip.Height, n.Finalized(), mhp, mhpc, mhc, renderEvents(events))
		if perr != nil {
			r.fail(i, "c03-accepted-with-error", label+": "+perr.Error())
		}
		if !bytes.Equal(n.Tip().Encode(), b.Encode()) {
			r.fail(i, "c03-appended-block-differs", label+": the new tip is not the block that was offered")
		}
		if expect == expReject && strings.HasPrefix(label, "owner-") {
			r.failOnce(i, "c03-wrong-slot-owner-accepted", fmt.Sprintf("%s: a block generated and signed by a validator that does not own the slot was appended; %s", label, r.slotDetail(b)))
		} else if expect == expReject {
			r.fail(i, "c03-unenforced:"+ruleOf(label), fmt.Sprintf("%s: a block violating the rule was appended at height %d", label, tip.Height))
		}
		if expect == expKnown {
			noteKnown("c03-unenforced:"+ruleOf(label), fmt.Sprintf("%s: a block violating the rule was appended at height %d (case op %d)", label, tip.Height, i))
		}
		if expect == expIgnore {
			r.fail(i, "c03-identical-block-applied", label)
		}
	default:
		// not accepted: nothing may have changed
		after := r.snap()
		changed := []string{}
		if after.dump != before.dump {
			changed = append(changed, "database: "+strings.Join(node.DiffDumps(parseDump(before.dump), parseDump(after.dump)), "; "))
		}
		if !bytes.Equal(after.tip, before.tip) {
			changed = append(changed, "tip")
		}
		if after.fin != before.fin {
			changed = append(changed, fmt.Sprintf("finalized %d->%d", before.fin, after.fin))
		}
		if after.bft != before.bft {
			changed = append(changed, "BFT store")
		}
		if after.abi != before.abi {
			changed = append(changed, "application state "+before.abi+" -> "+after.abi)
		}
		if len(events) != 0 {
			changed = append(changed, "events "+renderEvents(events))
		}
		if after.vol != before.vol && !r.volReported {
			// reported once per case (every rejected candidate would repeat it); the node is not rebuilt for it
			r.volReported = true
			r.fail(i, "c03-rejected-block-left-traces:volatile-state", label+": volatile executer state "+before.vol+" -> "+after.vol)
		}
		if len(changed) != 0 {
			r.fail(i, "c03-rejected-block-left-traces", label+": "+trunc(strings.Join(changed, " | "), 600))
		} else {
			r.cached = &after
		}
		switch {
		case perr == nil && fc == "identical":
			out = "ign"
		case perr == nil:
			out = "rej none"
			r.fail(i, "c03-silently-dropped", label+": not applied and no error returned")
		default:
			out = "rej " + classify(perr, n.ABI, 0)
			if strings.HasPrefix(out, "rej panic") {
				r.fail(i, "c03-panic", label+": "+perr.Error())
			}
		}
		if expect == expAccept && strings.HasPrefix(out, "rej generator") {
			// the block was built by the owner of the slot according to the APPLICATION's list
			r.failOnce(i, "c03-owner-block-rejected", fmt.Sprintf("%s: the block of the owner of the slot was refused (%v); %s", label, perr, r.slotDetail(b)))
		} else if expect == expAccept {
			r.fail(i, "c03-valid-rejected:"+ruleOf(label), fmt.Sprintf("%s: %v", label, perr))
		}
		if len(changed) != 0 {
			// continue from a clean state
			if err := r.fresh(); err != nil {
				r.fail(i, "c03-harness-replay", err.Error())
			}
		}
	}
	if accepted {
		if kind == "apply" {
			r.applied = append(r.applied, b)
			r.storedOracle(i, consensusValidatorsOf(n.ABI))
		} else if err := r.fresh(); err != nil { // candidates are evaluated on the same state: rebuild it
			r.fail(i, "c03-harness-replay", err.Error())
		}
	} else if kind == "apply" {
		r.fail(i, "c03-honest-block-rejected", fmt.Sprintf("height %d: %v", b.Header.Height, perr))
	}
	return out
}

// ruleOf maps a mutation label to the rule of the property it violates (stable part of the Sig).
func ruleOf(label string) string {
	for _, p := range []struct{ prefix, rule string }{
		{"unsigned-", "signature-covers-field"}, {"version", "version"}, {"ts-", "slot"}, {"height", "height"}, {"prev-", "previous-block"},
		{"generator", "generator"}, {"owner-", "slot-owner"}, {"signer", "signature"}, {"signature", "signature"}, {"chain-id", "chain-id"}, {"mhp", "max-height-prevoted"},
		{"mhg", "contradiction"}, {"implies", "implies-max-prevotes"}, {"garbage-EventRoot", "event-root"}, {"short-EventRoot", "event-root"},
		{"empty-EventRoot", "event-root"}, {"event-root", "event-root"}, {"garbage-StateRoot", "state-root"}, {"short-StateRoot", "state-root"},
		{"garbage-TransactionRoot", "transaction-root"}, {"short-TransactionRoot", "transaction-root"}, {"garbage-AssetRoot", "asset-root"},
		{"short-AssetRoot", "asset-root"}, {"garbage-ValidatorsHash", "validators-hash"}, {"short-ValidatorsHash", "validators-hash"},
		{"empty-ValidatorsHash", "validators-hash"}, {"validators-hash", "validators-hash"}, {"ac-skips-params-change", "aggregate-commit-next-params-bound"},
		{"ac-", "aggregate-commit"}, {"payload-size", "payload-size"}, {"payload-", "transaction-root"}, {"asset", "assets"}, {"tx-static", "tx-static-validity"},
		{"verify-", "tx-verify-verdict"}, {"execute-", "tx-execute-verdict"}, {"abi-fail", "application-failure"}, {"params-change", "parameter-change"},
	} {
		if strings.HasPrefix(label, p.prefix) {
			return p.rule
		}
	}
	return label
}

func trunc(s string, n int) string {
	if len(s) > n {
		return s[:n] + "..."
	}
	return s
}

func parseDump(s string) []node.KV {
	var res []node.KV
	for _, l := range strings.Split(s, "\n") {
		p := strings.SplitN(l, "=", 2)
		if len(p) != 2 {
			continue
		}
		k, _ := hex.DecodeString(p[0])
		v, _ := hex.DecodeString(p[1])
		res = append(res, node.KV{Key: k, Value: v})
	}
	return res
}

func (prop) RunImpl(c corr.Case) ([]string, []corr.Fail) {
	r := &runner{}
	defer r.close()
	out := make([]string, 0, len(c.Ops))
	for i, op := range c.Ops {
		w := strings.Fields(op)
		line := func() (res string) {
			defer func() {
				if p := recover(); p != nil {
					res = "panic"
					r.fail(i, "c03-harness-panic", fmt.Sprint(p))
				}
			}()
			switch {
			case len(w) == 0:
				return "bad-op"
			case w[0] == "reset":
				if err := r.reset(w); err != nil {
					r.fail(i, "c03-harness-reset", err.Error())
					return "err"
				}
				if u := uncoveredHeaderFields(); len(u) != 0 {
					r.fail(i, "c03-unmutated-header-field", strings.Join(u, ","))
				}
				r.storedOracle(i, -1) // what the node stored for the genesis answer of the application
				return "ok"
			case r.n == nil:
				return "bad-op"
			case w[0] == "apply" || w[0] == "cand":
				return r.candidate(i, w)
			case w[0] == "dump":
				return r.n.BFTDump()
			case w[0] == "restart":
				r.cached = nil
				if err := r.n.Restart(); err != nil {
					r.fail(i, "c03-restart", err.Error())
				}
				return "ok"
			case w[0] == "planfail":
				r.fail(i, "c03-planner", strings.Join(w[1:], " "))
				return "bad-op"
			}
			return "bad-op"
		}()
		out = append(out, line)
	}
	return out, r.fails
}

func (prop) Classify(c corr.Case, out []string) string {
	acc, rej := 0, 0
	classes := map[string]bool{}
	for i, o := range out {
		if !strings.HasPrefix(c.Ops[i], "cand ") {
			continue
		}
		if strings.HasPrefix(o, "acc") {
			acc++
		} else if strings.HasPrefix(o, "rej ") {
			rej++
			classes[o[4:]] = true
		}
	}
	if acc+rej == 0 {
		return ""
	}
	return fmt.Sprintf("%s:errclasses=%d", c.Tag, len(classes))
}
