// Package c02: the real liskbft module vs the Lean transcription (Model/BFT.lean) on generated
// header chains with parameter changes; determinism oracle (two independently built nodes agree).
package c02

import (
	"math/rand"
	"strings"

	"verifharness/bftsim"
	"verifharness/corr"
)

type prop struct{}

func init() { corr.Register(prop{}) }

func (prop) ID() string    { return "C02" }
func (prop) Parallel() int { return 8 }

func (prop) Generate(rng *rand.Rand, tier string) []corr.Case {
	n, maxBlocks := 250, 60
	if tier == "thorough" {
		n, maxBlocks = 6000, 140
	}
	cases := make([]corr.Case, 0, n)
	for i := 0; i < n; i++ {
		mb := maxBlocks
		if i%20 == 0 {
			mb = maxBlocks * 4
		}
		cases = append(cases, corr.Case{Ops: bftsim.GenChain(rng, mb), Tag: "chain"})
	}
	return cases
}

func run(c corr.Case) []string {
	var node *bftsim.Node
	out := make([]string, 0, len(c.Ops))
	for _, op := range c.Ops {
		w := strings.Fields(op)
		if w[0] == "reset" {
			if node != nil {
				node.Close()
			}
			node = bftsim.NewNode(atoi(w[1]), uint32(atoi(w[2])))
			out = append(out, "ok")
			continue
		}
		out = append(out, node.Step(op))
	}
	if node != nil {
		node.Close()
	}
	return out
}

func atoi(s string) int {
	n := 0
	for _, ch := range s {
		n = n*10 + int(ch-'0')
	}
	return n
}

func (prop) RunImpl(c corr.Case) ([]string, []corr.Fail) {
	out := run(c)
	var fails []corr.Fail
	// determinism: a second, independently constructed node fed the same chain reports the same state
	out2 := run(c)
	for i := range out {
		if out[i] != out2[i] {
			fails = append(fails, corr.Fail{Sig: "bft-not-deterministic", Detail: c.Ops[i] + ": " + out[i] + " vs " + out2[i], Op: i})
			break
		}
		if strings.HasPrefix(out[i], "panic") {
			fails = append(fails, corr.Fail{Sig: "bft-panic", Detail: c.Ops[i] + ": " + out[i], Op: i})
		}
	}
	// monotonicity of the reported heights along the chain
	var pm, pc uint64
	for i, o := range out {
		if strings.HasPrefix(o, "ok ") && strings.HasPrefix(c.Ops[i], "block") {
			f := strings.Fields(o)
			m, p := uint64(atoi(f[1])), uint64(atoi(f[2]))
			if m < pm || p < pc {
				fails = append(fails, corr.Fail{Sig: "bft-heights-decreased", Detail: c.Ops[i] + ": " + o, Op: i})
			}
			if p > m {
				fails = append(fails, corr.Fail{Sig: "precommitted-above-prevoted", Detail: c.Ops[i] + ": " + o, Op: i})
			}
			pm, pc = m, p
		}
		if strings.HasPrefix(c.Ops[i], "reset") {
			pm, pc = 0, 0
		}
	}
	return out, fails
}

func (prop) Classify(c corr.Case, out []string) string {
	// non-trivial: finality advanced beyond genesis, or a parameter change happened after blocks
	adv, blocks, changes := false, 0, 0
	g := ""
	for i, o := range out {
		w := strings.Fields(c.Ops[i])
		if w[0] == "reset" {
			g = w[2]
		}
		if w[0] == "block" && strings.HasPrefix(o, "ok ") {
			blocks++
			f := strings.Fields(o)
			if f[2] != g {
				adv = true
			}
		}
		if w[0] == "setparams" && blocks > 0 && strings.HasPrefix(o, "ok ") {
			changes++
		}
	}
	switch {
	case adv && changes > 0:
		return "finality+paramchange"
	case adv:
		return "finality"
	case changes > 0:
		return "paramchange"
	}
	return ""
}
