// Package c02: the real liskbft module vs the Lean transcription (Model/BFT.lean) on generated
// header chains with parameter changes; determinism oracle (two independently built nodes agree).
package c02

import (
	"fmt"
	"math/big"
	"math/rand"
	"strconv"
	"strings"

	"verifharness/bftsim"
	"verifharness/corr"
)

type prop struct{}

func init() { corr.Register(prop{}) }

func (prop) ID() string    { return "C02" }
func (prop) Parallel() int { return 8 }

func (prop) Generate(rng *rand.Rand, tier string) []corr.Case {
	n, maxBlocks := 250, 60
	if tier == "thorough" {
		n, maxBlocks = 6000, 140
	}
	cases := make([]corr.Case, 0, n)
	for i := 0; i < n; i++ {
		mb := maxBlocks
		if i%20 == 0 {
			mb = maxBlocks * 4
		}
		cases = append(cases, corr.Case{Ops: bftsim.GenChain(rng, mb), Tag: "chain"})
	}
	// BFT weights near the uint64 limits (aggregate near 2^63 / 2^64 / beyond); generated after the
	// chain cases so that those are unchanged for a given seed
	for i := 0; i < n/5; i++ {
		ops, _ := bftsim.GenHeavy(rng, 3*maxBlocks/4)
		cases = append(cases, corr.Case{Ops: ops, Tag: "heavy"})
	}
	// fork switches (blocks deleted and replaced by a continuation with different BFT parameters at
	// the same heights), discarded candidate blocks and restarts of the module object: the state must
	// be a function of the chain which is left (oracle c02-history-dependent); generated last so that
	// the cases above are unchanged for a given seed
	for i := 0; i < n/3; i++ {
		kind := 0
		switch i % 6 {
		case 4:
			kind = 1
		case 5:
			kind = 2
		}
		cases = append(cases, corr.Case{Ops: bftsim.GenFork(rng, maxBlocks/2, kind), Tag: "fork"})
	}
	// header fields and heights at the integer extremes (bftsim/extreme.go): genesis heights 2^32-k,
	// 2^31-k and 0, maxHeightGenerated / maxHeightPrevoted / commit heights 0, h-1, h, h+1, 2^31±1,
	// 2^32-2, 2^32-1, batch sizes 1, 2 and longer than the chain; generated last so that the cases
	// above are unchanged for a given seed
	for i := 0; i < n/4; i++ {
		cases = append(cases, corr.Case{Ops: bftsim.GenExtreme(rng, maxBlocks/2), Tag: "extreme"})
	}
	// aggregate commits carried by headers that imply no votes (standby generators, validators removed from
	// the BFT parameters that keep generating, maxHeightGenerated >= height, first blocks of joining
	// validators): maxHeightCertified and the pruning must follow the chain (bftsim/certified.go);
	// generated last so that the cases above are unchanged for a given seed
	for i := 0; i < n/5; i++ {
		cases = append(cases, corr.Case{Ops: bftsim.GenNonVoting(rng, maxBlocks), Tag: "nonvoting"})
	}
	return cases
}

func run(c corr.Case) []string {
	var node *bftsim.Node
	out := make([]string, 0, len(c.Ops))
	for _, op := range c.Ops {
		w := strings.Fields(op)
		if w[0] == "reset" {
			if node != nil {
				node.Close()
			}
			node = bftsim.NewNode(atoi(w[1]), uint32(atoi(w[2])))
			node.Track = true
			out = append(out, "ok")
			continue
		}
		out = append(out, node.Step(op))
	}
	if node != nil {
		node.Close()
	}
	return out
}

func atoi(s string) int {
	n := 0
	for _, ch := range s {
		n = n*10 + int(ch-'0')
	}
	return n
}

// checkThresholds is the model-free oracle for `setparams` (LIP-0058 with exact arithmetic): the
// parameters are accepted iff the validator set fits the batch size, all weights are positive, the
// exact aggregate weight W fits into a uint64 and floor(W/3)+1 <= threshold <= W for both
// thresholds; the stored prevote threshold is floor(2W/3)+1.
func checkThresholds(batch int, op, out string, i int) []corr.Fail {
	w := strings.Fields(op)
	pc, _ := new(big.Int).SetString(w[1], 10)
	ct, _ := new(big.Int).SetString(w[2], 10)
	total := new(big.Int)
	n, positive := 0, true
	if w[3] != "-" {
		for _, item := range strings.Split(w[3], ",") {
			x, _ := new(big.Int).SetString(strings.Split(item, ":")[1], 10)
			if x.Sign() <= 0 {
				positive = false
			}
			total.Add(total, x)
			n++
		}
	}
	lo := new(big.Int).Add(new(big.Int).Div(total, big.NewInt(3)), big.NewInt(1))
	within := func(t *big.Int) bool { return lo.Cmp(t) <= 0 && t.Cmp(total) <= 0 }
	valid := n <= batch && positive && total.BitLen() <= 64 && within(pc) && within(ct)
	accepted := strings.HasPrefix(out, "ok ")
	if accepted != valid {
		sig := "bft-params-accepted-invalid"
		if valid {
			sig = "bft-params-rejected-valid"
		}
		if accepted && total.BitLen() > 64 {
			sig = "bft-aggregate-weight-overflow"
		}
		return []corr.Fail{{Sig: sig, Detail: op + ": " + out, Op: i}}
	}
	if accepted && n > 0 {
		// the newest parameter entry " h=prevote/precommit/cert[" with these thresholds must carry floor(2W/3)+1
		want := new(big.Int).Add(new(big.Int).Div(new(big.Int).Mul(total, big.NewInt(2)), big.NewInt(3)), big.NewInt(1))
		suffix := fmt.Sprintf("/%s/%s[", w[1], w[2])
		sec := strings.Split(out, " |")
		if len(sec) >= 4 {
			ok := false
			for _, e := range strings.Fields(sec[3]) {
				k := strings.Index(e, "=")
				j := strings.Index(e, "[")
				if k < 0 || j < 0 || !strings.HasSuffix(e[:j+1], suffix) {
					continue
				}
				if strings.HasPrefix(e[k+1:], want.String()+"/") {
					ok = true
				}
			}
			if !ok {
				return []corr.Fail{{Sig: "bft-prevote-threshold", Detail: op + ": want " + want.String() + " in " + sec[3], Op: i}}
			}
		}
	}
	return nil
}

func (prop) RunImpl(c corr.Case) ([]string, []corr.Fail) {
	out := run(c)
	var fails []corr.Fail
	batch := 0
	for i, op := range c.Ops {
		if strings.HasPrefix(op, "reset ") {
			batch, _ = strconv.Atoi(strings.Fields(op)[1])
		}
		if strings.HasPrefix(op, "setparams ") {
			fails = append(fails, checkThresholds(batch, op, out[i], i)...)
		}
	}
	// determinism: a second, independently constructed node fed the same chain reports the same state
	out2 := run(c)
	for i := range out {
		if out[i] != out2[i] {
			fails = append(fails, corr.Fail{Sig: "bft-not-deterministic", Detail: c.Ops[i] + ": " + out[i] + " vs " + out2[i], Op: i})
			break
		}
		if strings.HasPrefix(out[i], "panic") {
			fails = append(fails, corr.Fail{Sig: "bft-panic", Detail: c.Ops[i] + ": " + out[i], Op: i})
		}
	}
	fails = append(fails, checkHistory(c, out)...)
	// the votes implied by every single header (LIP-0058 rule with exact arithmetic, bftsim/votes.go)
	fails = append(fails, bftsim.CheckVotes(c.Ops, out)...)
	// maxHeightCertified = the certified height carried by the chain, whatever kind of header carried the
	// aggregate commit (bftsim/certified.go)
	fails = append(fails, bftsim.CheckCertified(c.Ops, out)...)
	// monotonicity of the reported heights along the chain
	var pm, pc uint64
	var hist [][2]uint64 // heights before each block on the chain (restored by `revert`)
	for i, o := range out {
		if strings.HasPrefix(o, "ok ") && c.Ops[i] == "revert" && len(hist) > 0 {
			pm, pc = hist[len(hist)-1][0], hist[len(hist)-1][1]
			hist = hist[:len(hist)-1]
		}
		if strings.HasPrefix(o, "ok ") && strings.HasPrefix(c.Ops[i], "block") {
			hist = append(hist, [2]uint64{pm, pc})
			f := strings.Fields(o)
			m, p := uint64(atoi(f[1])), uint64(atoi(f[2]))
			if m < pm || p < pc {
				fails = append(fails, corr.Fail{Sig: "bft-heights-decreased", Detail: c.Ops[i] + ": " + o, Op: i})
			}
			if p > m {
				fails = append(fails, corr.Fail{Sig: "precommitted-above-prevoted", Detail: c.Ops[i] + ": " + o, Op: i})
			}
			pm, pc = m, p
		}
		if strings.HasPrefix(c.Ops[i], "reset") {
			pm, pc = 0, 0
			hist = nil
		}
	}
	return out, fails
}

// Winning returns the indices of the ops of the chain which is left at the end of the case: the ops
// of deleted blocks (the block op, the parameter / key changes and the queries made while it was the
// tip), the `revert`, `restart` and `tryblock` ops are dropped. out are the outputs of the case.
func Winning(ops, out []string) (kept []int, forked bool) {
	var marks []int
	for i, op := range ops {
		w := strings.Fields(op)
		switch w[0] {
		case "reset":
			kept, marks = []int{i}, nil
		case "block":
			if strings.HasPrefix(out[i], "ok ") {
				marks = append(marks, len(kept))
			}
			kept = append(kept, i)
		case "revert":
			forked = true
			if strings.HasPrefix(out[i], "ok ") && len(marks) > 0 {
				kept = kept[:marks[len(marks)-1]]
				marks = marks[:len(marks)-1]
			}
		case "restart", "tryblock":
			forked = true
		default:
			kept = append(kept, i)
		}
	}
	return kept, forked
}

// checkHistory is the model-free oracle for "a function of the header sequence alone": a fresh node
// which only ever sees the chain that is left (no deleted blocks, no dropped candidates, no restart)
// must answer every op of that chain exactly like the node which went through the whole history
// (complete BFT store dump after every block / parameter change, and every query).
func checkHistory(c corr.Case, out []string) []corr.Fail {
	kept, forked := Winning(c.Ops, out)
	if !forked {
		return nil
	}
	ops := make([]string, len(kept))
	for j, i := range kept {
		ops[j] = c.Ops[i]
	}
	fresh := run(corr.Case{Ops: ops})
	for j, i := range kept {
		if fresh[j] != out[i] {
			return []corr.Fail{{Sig: "c02-history-dependent", Op: i,
				Detail: fmt.Sprintf("%s: node with history: %s | node that only saw the final chain: %s", c.Ops[i], out[i], fresh[j])}}
		}
	}
	return nil
}

func (prop) Classify(c corr.Case, out []string) string {
	// non-trivial: finality advanced beyond genesis, or a parameter change happened after blocks
	adv, blocks, changes := false, 0, 0
	g := ""
	for i, o := range out {
		w := strings.Fields(c.Ops[i])
		if w[0] == "reset" {
			g = w[2]
		}
		if w[0] == "block" && strings.HasPrefix(o, "ok ") {
			blocks++
			f := strings.Fields(o)
			if f[2] != g {
				adv = true
			}
		}
		if w[0] == "setparams" && blocks > 0 && strings.HasPrefix(o, "ok ") {
			changes++
		}
	}
	if c.Tag == "fork" {
		rev, rs, try := 0, 0, 0
		for i, o := range out {
			switch strings.Fields(c.Ops[i])[0] {
			case "revert":
				if strings.HasPrefix(o, "ok ") {
					rev++
				}
			case "restart":
				rs++
			case "tryblock":
				try++
			}
		}
		cl := ""
		switch {
		case rev > 0 && changes > 0:
			cl = "fork-switch+paramchange"
		case rev > 0:
			cl = "fork-switch"
		case rs > 0:
			cl = "restart"
		case try > 0:
			cl = "dropped-candidate"
		}
		if cl != "" && adv {
			cl += "+finality"
		}
		return cl
	}
	if c.Tag == "extreme" {
		return classifyExtreme(c, out, adv)
	}
	if c.Tag == "nonvoting" {
		cl := "nonvoting:" + bftsim.ClassifyNonVoting(c.Ops, out)
		if adv {
			cl += "+finality"
		}
		return cl
	}
	if c.Tag == "heavy" {
		okp, errp := 0, 0
		for i, o := range out {
			if strings.HasPrefix(c.Ops[i], "setparams") {
				if strings.HasPrefix(o, "ok ") {
					okp++
				} else {
					errp++
				}
			}
		}
		switch {
		case okp > 0 && adv:
			return "heavy-weights+finality"
		case okp > 0:
			return "heavy-weights-accepted"
		case errp > 0:
			return "heavy-weights-rejected"
		}
		return ""
	}
	switch {
	case adv && changes > 0:
		return "finality+paramchange"
	case adv:
		return "finality"
	case changes > 0:
		return "paramchange"
	}
	return ""
}

// classifyExtreme names what a case of the family "header fields at the integer extremes" exercised:
// the region of the heights (top = within 2^32-1-400 of the wrap, mid = around 2^31), whether a
// header claimed maxHeightGenerated 2^32-1 / 2^32-2, whether the block at 2^32-1 was tried, and
// whether finality advanced there.
func classifyExtreme(c corr.Case, out []string, adv bool) string {
	region, claim, topTried := "low", "", false
	for i, op := range c.Ops {
		w := strings.Fields(op)
		switch w[0] {
		case "reset":
			g, _ := strconv.ParseUint(w[2], 10, 64)
			switch {
			case g >= 1<<32-1-400:
				region = "top"
			case g >= 1<<31-400 && g <= 1<<31+400:
				region = "mid"
			}
		case "block":
			if w[1] == "4294967295" {
				topTried = true
			}
			if strings.HasPrefix(out[i], "ok ") && (w[3] == "4294967295" || w[3] == "4294967294") {
				claim = "+mhg-max"
			}
		}
	}
	cl := "extreme-" + region + claim
	if topTried {
		cl += "+last-height"
	}
	if adv {
		cl += "+finality"
	}
	return cl
}
