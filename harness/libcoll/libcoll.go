// Package libcoll is the pseudo-property "LIBCOLL": differential correspondence between the real helper
// library /repo/pkg/collection/** (collection, collection/bytes, collection/ints, collection/strings) and
// the Lean model LiskVerif.Collection (lean/LiskVerif/Model/Collection.lean, theorems in
// Props/C12_Lib.lean, Props/C10_Lib.lean, Props/C06_Lib.lean), plus a model-free oracle that checks
// the algebraic laws the callers rely on directly on the real code (round trips, order isomorphism,
// sortedness + permutation, idempotence, first-index, freshness of returned slices ...).
//
// Line protocol: see the header of lean/Driver/Collection.lean (one op per exported function).
// Every op runs under recover. A panic is printed as `panic`; it is a corr.Fail only where the law of
// the function says that no panic may occur (the panics of Insert / IsBitSet / ToUint32 / ToUint64 /
// JoinSize / Repeat / Max / Min / GenerateRandom on bad arguments are modelled outcomes).
package libcoll

import (
	stdbytes "bytes"
	"encoding/binary"
	"encoding/hex"
	"fmt"
	"io"
	"math"
	"sort"
	"strconv"
	"strings"
	"time"

	"github.com/LiskHQ/lisk-engine/pkg/collection"
	cbytes "github.com/LiskHQ/lisk-engine/pkg/collection/bytes"
	"github.com/LiskHQ/lisk-engine/pkg/collection/ints"
	cstrings "github.com/LiskHQ/lisk-engine/pkg/collection/strings"

	"verifharness/corr"
)

type prop struct{}

func init() { corr.Register(prop{}) }

func (prop) ID() string    { return "LIBCOLL" }
func (prop) Parallel() int { return 8 }

// CaseTimeout: every op is a handful of pure function calls.
func (prop) CaseTimeout() time.Duration { return 20 * time.Second }

// ---------------------------------------------------------------------------------------------
// parsing (mirrors Driver/Collection.lean)

// num is an integer of int64 ∪ uint64.
type num struct {
	neg bool
	mag uint64 // absolute value
}

func (a num) cmp(b num) int {
	switch {
	case a.neg && !b.neg:
		return -1
	case !a.neg && b.neg:
		return 1
	case a.neg:
		switch {
		case a.mag > b.mag:
			return -1
		case a.mag < b.mag:
			return 1
		}
		return 0
	}
	switch {
	case a.mag < b.mag:
		return -1
	case a.mag > b.mag:
		return 1
	}
	return 0
}

func (a num) String() string {
	if a.neg {
		return "-" + strconv.FormatUint(a.mag, 10)
	}
	return strconv.FormatUint(a.mag, 10)
}

func (a num) fitsI64() bool {
	if a.neg {
		return a.mag <= 1<<63
	}
	return a.mag < 1<<63
}
func (a num) fitsU64() bool { return !a.neg }
func (a num) i64() int64 {
	if a.neg {
		return -int64(a.mag-1) - 1
	}
	return int64(a.mag)
}

// canonNum: canonical decimal (digits, optional leading '-', no leading zeros, no "-0") of int64 ∪ uint64.
func canonNum(s string) (num, bool) {
	neg := false
	d := s
	if strings.HasPrefix(s, "-") {
		neg = true
		d = s[1:]
	}
	if d == "" || (len(d) > 1 && d[0] == '0') {
		return num{}, false
	}
	for _, c := range d {
		if c < '0' || c > '9' {
			return num{}, false
		}
	}
	m, err := strconv.ParseUint(d, 10, 64)
	if err != nil {
		return num{}, false
	}
	if neg && (m == 0 || m > 1<<63) {
		return num{}, false
	}
	return num{neg, m}, true
}

// goInt: a Go int argument.
func goInt(s string) (int, bool) {
	n, ok := canonNum(s)
	if !ok || !n.fitsI64() {
		return 0, false
	}
	return int(n.i64()), true
}

func natCanon(s string) (uint64, bool) {
	n, ok := canonNum(s)
	if !ok || n.neg || n.mag >= 1<<63 {
		return 0, false
	}
	return n.mag, true
}

type numList struct {
	isNil bool
	l     []num
}

func oneType(l []num) bool {
	allI, allU := true, true
	for _, x := range l {
		allI = allI && x.fitsI64()
		allU = allU && x.fitsU64()
	}
	return allI || allU
}

func parseNumList(s string) (numList, bool) {
	if s == "nil" {
		return numList{isNil: true}, true
	}
	if s == "[]" {
		return numList{l: []num{}}, true
	}
	var l []num
	for _, t := range strings.Split(s, ",") {
		n, ok := canonNum(t)
		if !ok {
			return numList{}, false
		}
		l = append(l, n)
	}
	if !oneType(l) {
		return numList{}, false
	}
	return numList{l: l}, true
}

func showNums(l []num, isNil bool) string {
	if isNil {
		return "nil"
	}
	if len(l) == 0 {
		return "[]"
	}
	s := make([]string, len(l))
	for i, x := range l {
		s[i] = x.String()
	}
	return strings.Join(s, ",")
}

func hexTok(s string) ([]byte, bool) {
	if s == "nil" {
		return nil, true
	}
	if s == "-" {
		return []byte{}, true
	}
	if s != strings.ToLower(s) {
		return nil, false
	}
	b, err := hex.DecodeString(s)
	if err != nil || len(b) == 0 {
		return nil, false
	}
	return b, true
}

func parseHexList(s string) ([][]byte, bool) {
	if s == "nil" {
		return nil, true
	}
	if s == "[]" {
		return [][]byte{}, true
	}
	var l [][]byte
	for _, t := range strings.Split(s, ",") {
		b, ok := hexTok(t)
		if !ok {
			return nil, false
		}
		l = append(l, b)
	}
	return l, true
}

func showHexList(l [][]byte) string {
	if l == nil {
		return "nil"
	}
	if len(l) == 0 {
		return "[]"
	}
	s := make([]string, len(l))
	for i, x := range l {
		s[i] = corr.Hex(x)
	}
	return strings.Join(s, ",")
}

func showHex(b []byte) string {
	if b == nil {
		return "nil"
	}
	return corr.Hex(b)
}

func parseBits(s string) ([]bool, bool) {
	if s == "nil" {
		return nil, true
	}
	if s == "[]" {
		return []bool{}, true
	}
	l := make([]bool, len(s))
	for i, c := range s {
		switch c {
		case '0':
		case '1':
			l[i] = true
		default:
			return nil, false
		}
	}
	return l, true
}

func showBits(l []bool) string {
	if l == nil {
		return "nil"
	}
	if len(l) == 0 {
		return "[]"
	}
	b := make([]byte, len(l))
	for i, x := range l {
		b[i] = '0'
		if x {
			b[i] = '1'
		}
	}
	return string(b)
}

type pred func(num) bool

func parsePred(s string) (pred, bool) {
	p := strings.Split(s, ":")
	switch {
	case len(p) == 1 && p[0] == "T":
		return func(num) bool { return true }, true
	case len(p) == 1 && p[0] == "F":
		return func(num) bool { return false }, true
	case len(p) == 2 && (p[0] == "lt" || p[0] == "le" || p[0] == "gt" || p[0] == "ge" || p[0] == "eq" || p[0] == "ne"):
		n, ok := canonNum(p[1])
		if !ok {
			return nil, false
		}
		op := p[0]
		return func(x num) bool {
			c := x.cmp(n)
			switch op {
			case "lt":
				return c < 0
			case "le":
				return c <= 0
			case "gt":
				return c > 0
			case "ge":
				return c >= 0
			case "eq":
				return c == 0
			}
			return c != 0
		}, true
	case len(p) == 3 && p[0] == "mod":
		m, ok1 := natCanon(p[1])
		r, ok2 := natCanon(p[2])
		if !ok1 || !ok2 || m == 0 {
			return nil, false
		}
		return func(x num) bool {
			e := x.mag % m
			if x.neg && e != 0 {
				e = m - e
			}
			return e == r
		}, true
	case len(p) == 2 && p[0] == "in":
		var set []num
		for _, t := range strings.Split(p[1], ";") {
			n, ok := canonNum(t)
			if !ok {
				return nil, false
			}
			set = append(set, n)
		}
		return func(x num) bool {
			for _, y := range set {
				if x.cmp(y) == 0 {
					return true
				}
			}
			return false
		}, true
	}
	return nil, false
}

// ---------------------------------------------------------------------------------------------
// runner

type runner struct {
	fails []corr.Fail
	op    int
	// last values per width for the pairwise order-isomorphism law
	last16, last32, last64    uint64
	have16, have32, have64    bool
	lastJoinPrefix, lastJoinK []byte
	haveJoin                  bool
}

func (r *runner) fail(sig, format string, a ...any) {
	r.fails = append(r.fails, corr.Fail{Sig: sig, Detail: fmt.Sprintf(format, a...), Op: r.op})
}

type gint interface{ ~int64 | ~uint64 }

func toNum[T gint](x T) num {
	if x < 0 {
		// only reachable for int64
		v := int64(x)
		return num{true, uint64(-(v + 1)) + 1}
	}
	return num{false, uint64(x)}
}

func fromNums[T gint](nl numList) []T {
	if nl.isNil {
		return nil
	}
	res := make([]T, len(nl.l))
	for i, x := range nl.l {
		if x.neg {
			v := x.i64()
			res[i] = T(v)
		} else {
			res[i] = T(x.mag)
		}
	}
	return res
}

func toNums[T gint](l []T) []num {
	res := make([]num, len(l))
	for i, x := range l {
		res[i] = toNum(x)
	}
	return res
}

func sameT[T comparable](a, b []T) bool {
	if len(a) != len(b) {
		return false
	}
	for i := range a {
		if a[i] != b[i] {
			return false
		}
	}
	return true
}

func cloneT[T any](a []T) []T {
	if a == nil {
		return nil
	}
	return append([]T{}, a...)
}

func useSigned(lists ...[]num) bool {
	for _, l := range lists {
		for _, x := range l {
			if x.neg {
				return true
			}
		}
	}
	return false
}

// call runs f under recover; panicked reports a Go panic.
func call(f func()) (panicked bool, val any) {
	defer func() {
		if p := recover(); p != nil {
			panicked, val = true, p
		}
	}()
	f()
	return false, nil
}

func (r *runner) unexpectedPanic(op string, v any) string {
	r.fail("libcoll-panic-"+op, "%s panicked: %v", op, v)
	return "panic"
}

// ---- generic ops, instantiated at T = int64 or uint64 (and at string / []byte for the `any` ones)

func genericOp[T gint](r *runner, w []string, a, b numList, p pred, index int, val num) string {
	la, lb := fromNums[T](a), fromNums[T](b)
	orig := cloneT(la)
	tp := func(x T) bool { return p(toNum(x)) }
	defer func() {
		// no function of the package may change its argument
		if !sameT(orig, la) {
			r.fail("libcoll-arg-mutated", "%s changed its argument %v -> %v", w[0], orig, la)
		}
	}()
	switch w[0] {
	case "copy":
		var res []T
		if pn, v := call(func() { res = collection.Copy(la) }); pn {
			return r.unexpectedPanic("copy", v)
		}
		if res == nil {
			r.fail("libcoll-nil-result", "Copy(%s) = nil", w[1])
		}
		if !sameT(res, la) {
			r.fail("libcoll-copy-differs", "Copy(%s) = %v", w[1], res)
		}
		if len(res) > 0 {
			res[0]++
			if !sameT(orig, la) {
				r.fail("libcoll-copy-aliases", "writing to Copy(%s) changed the argument", w[1])
			}
			res[0]--
		}
		// the same at T = string and T = []byte
		ss := make([]string, len(la))
		bs := make([][]byte, len(la))
		for i, x := range la {
			ss[i] = toNum(x).String()
			bs[i] = []byte(ss[i])
		}
		sc, bc := collection.Copy(ss), collection.Copy(bs)
		for i := range la {
			if sc[i] != ss[i] || &bc[i][0] != &bs[i][0] {
				r.fail("libcoll-copy-differs", "Copy at T=string / []byte differs at %d", i)
			}
		}
		return showNums(toNums(res), res == nil)
	case "equal":
		var res, rev bool
		if pn, v := call(func() { res = collection.Equal(la, lb); rev = collection.Equal(lb, la) }); pn {
			return r.unexpectedPanic("equal", v)
		}
		if res != sameT(la, lb) {
			r.fail("libcoll-equal-wrong", "Equal(%s, %s) = %v", w[1], w[2], res)
		}
		if res != rev {
			r.fail("libcoll-equal-asymmetric", "Equal(%s, %s) = %v but swapped %v", w[1], w[2], res, rev)
		}
		if !collection.Equal(la, la) {
			r.fail("libcoll-equal-irreflexive", "Equal(%s, itself) = false", w[1])
		}
		return strconv.FormatBool(res)
	case "find", "findindex":
		first := -1
		for i, x := range la {
			if tp(x) {
				first = i
				break
			}
		}
		var got T
		var idx int
		if pn, v := call(func() { got = collection.Find(la, tp); idx = collection.FindIndex(la, tp) }); pn {
			return r.unexpectedPanic(w[0], v)
		}
		if idx != first {
			r.fail("libcoll-findindex-not-first", "FindIndex(%s, %s) = %d, first match at %d", w[1], w[2], idx, first)
		}
		if first >= 0 && got != la[first] {
			r.fail("libcoll-find-not-first", "Find(%s, %s) = %v, first match is %v", w[1], w[2], got, la[first])
		}
		if first < 0 && got != 0 {
			r.fail("libcoll-find-not-zero", "Find(%s, %s) = %v without match", w[1], w[2], got)
		}
		// T = []byte: the zero value is nil
		bs := make([][]byte, len(la))
		for i, x := range la {
			bs[i] = []byte(toNum(x).String())
		}
		bp := func(x []byte) bool { n, _ := canonNum(string(x)); return p(n) }
		bg, bi := collection.Find(bs, bp), collection.FindIndex(bs, bp)
		if bi != first || (first < 0 && bg != nil) || (first >= 0 && (len(bg) == 0 || &bg[0] != &bs[first][0])) {
			r.fail("libcoll-find-not-first", "Find / FindIndex at T=[]byte: %q / %d, first match at %d", bg, bi, first)
		}
		if w[0] == "findindex" {
			return strconv.Itoa(idx)
		}
		if first < 0 {
			return "zero"
		}
		return toNum(got).String()
	case "insert":
		var v T
		if val.neg {
			v = T(val.i64())
		} else {
			v = T(val.mag)
		}
		var res []T
		pn, pv := call(func() { res = collection.Insert(la, index, v) })
		inRange := index >= 0 && index <= len(la)
		if pn != !inRange {
			r.fail("libcoll-insert-panic-iff-out-of-range", "Insert(%s, %d, _): panic=%v (%v), len %d", w[1], index, pn, pv, len(la))
		}
		if pn {
			return "panic"
		}
		ok := len(res) == len(la)+1 && res != nil
		if ok {
			for i := range res {
				switch {
				case i < index:
					ok = ok && res[i] == la[i]
				case i == index:
					ok = ok && res[i] == v
				default:
					ok = ok && res[i] == la[i-1]
				}
			}
		}
		if !ok {
			r.fail("libcoll-insert-wrong", "Insert(%s, %d, %v) = %v", w[1], index, v, res)
		}
		// result does not share the argument's backing array: a write to it is invisible in la
		if len(res) > 0 && len(la) > 0 {
			res[0]++
			if !sameT(orig, la) {
				r.fail("libcoll-insert-aliases", "writing to Insert(%s, %d, _) changed the argument", w[1], index)
			}
			res[0]--
		}
		// spare capacity of the argument is never written (callers keep using the old slice)
		if len(la) > 0 {
			wide := make([]T, len(la), len(la)+2)
			copy(wide, la)
			full := wide[:len(la)+2]
			full[len(la)], full[len(la)+1] = 77, 78
			_ = collection.Insert(wide, index, v)
			if full[len(la)] != 77 || full[len(la)+1] != 78 || !sameT(wide, la) {
				r.fail("libcoll-insert-writes-arg", "Insert(%s, %d, _) wrote into its argument's backing array", w[1], index)
			}
		}
		return showNums(toNums(res), res == nil)
	case "prefix":
		var res, rev []T
		if pn, v := call(func() { res = collection.CommonPrefix(la, lb); rev = collection.CommonPrefix(lb, la) }); pn {
			return r.unexpectedPanic("prefix", v)
		}
		n := 0
		for n < len(la) && n < len(lb) && la[n] == lb[n] {
			n++
		}
		if res == nil || !sameT(res, la[:n]) {
			r.fail("libcoll-prefix-not-longest", "CommonPrefix(%s, %s) = %v (nil=%v), longest common prefix has %d elements", w[1], w[2], res, res == nil, n)
		}
		if !sameT(res, rev) {
			r.fail("libcoll-prefix-asymmetric", "CommonPrefix(%s, %s) = %v, swapped %v", w[1], w[2], res, rev)
		}
		return showNums(toNums(res), res == nil)
	case "reverse":
		var res, back []T
		if pn, v := call(func() { res = collection.Reverse(la); back = collection.Reverse(res) }); pn {
			return r.unexpectedPanic("reverse", v)
		}
		ok := len(res) == len(la) && res != nil
		for i := 0; ok && i < len(res); i++ {
			ok = res[i] == la[len(la)-1-i]
		}
		if !ok {
			r.fail("libcoll-reverse-wrong", "Reverse(%s) = %v (nil=%v)", w[1], res, res == nil)
		}
		if !sameT(back, la) {
			r.fail("libcoll-reverse-not-involutive", "Reverse(Reverse(%s)) = %v", w[1], back)
		}
		ss := make([]string, len(la))
		for i, x := range la {
			ss[i] = toNum(x).String()
		}
		sr := collection.Reverse(ss)
		for i := range ss {
			if sr[i] != ss[len(ss)-1-i] {
				r.fail("libcoll-reverse-wrong", "Reverse at T=string differs at %d", i)
				break
			}
		}
		return showNums(toNums(res), res == nil)
	case "bsearch":
		var res int
		calls := 0
		// a search that keeps calling the predicate is aborted from inside the predicate
		cp := func(x T) bool {
			calls++
			if calls > 2*bitsLen(len(la))+16 {
				panic(divergence{})
			}
			return tp(x)
		}
		if pn, v := call(func() { res = collection.BinarySearch(la, cp) }); pn {
			if _, div := v.(divergence); div {
				r.fail("libcoll-bsearch-diverges", "BinarySearch(%s, %s) called the predicate more than %d times", w[1], w[2], calls-1)
				return "diverges"
			}
			r.fail("libcoll-bsearch-panic", "BinarySearch(%s, %s) panicked: %v", w[1], w[2], v)
			return "panic"
		}
		if res < 0 || res > len(la) {
			r.fail("libcoll-bsearch-range", "BinarySearch(%s, %s) = %d", w[1], w[2], res)
			return strconv.Itoa(res)
		}
		// boundary law (every predicate): the result is len or satisfies the predicate, and its
		// predecessor (if any) does not
		if (res < len(la) && !tp(la[res])) || (res > 0 && tp(la[res-1])) {
			r.fail("libcoll-bsearch-not-boundary", "BinarySearch(%s, %s) = %d is not a false/true boundary", w[1], w[2], res)
		}
		// monotone predicate (false* true*): the least index satisfying it
		first, mono := len(la), true
		for i, x := range la {
			if tp(x) {
				if first == len(la) {
					first = i
				}
			} else if first != len(la) {
				mono = false
			}
		}
		if mono && res != first {
			r.fail("libcoll-bsearch-not-least", "BinarySearch(%s, %s) = %d, least satisfying index %d", w[1], w[2], res, first)
		}
		if n := len(la); n > 0 && calls > bitsLen(n)+1 {
			r.fail("libcoll-bsearch-not-logarithmic", "BinarySearch over %d elements called the predicate %d times", n, calls)
		}
		return strconv.Itoa(res)
	}
	return "bad-op"
}

type divergence struct{}

func bitsLen(n int) int {
	k := 0
	for n > 0 {
		k++
		n >>= 1
	}
	return k
}

func refCompare(a, b []byte) int {
	for i := 0; i < len(a) && i < len(b); i++ {
		if a[i] != b[i] {
			if a[i] < b[i] {
				return -1
			}
			return 1
		}
	}
	switch {
	case len(a) < len(b):
		return -1
	case len(a) > len(b):
		return 1
	}
	return 0
}

func refConcat(l [][]byte) []byte {
	res := []byte{}
	for _, v := range l {
		for _, c := range v {
			res = append(res, c)
		}
	}
	return res
}

func cloneBL(l [][]byte) [][]byte {
	if l == nil {
		return nil
	}
	res := make([][]byte, len(l))
	for i, v := range l {
		if v != nil {
			res[i] = append([]byte{}, v...)
		}
	}
	return res
}

func sameBL(a, b [][]byte) bool {
	if len(a) != len(b) {
		return false
	}
	for i := range a {
		if string(a[i]) != string(b[i]) || (a[i] == nil) != (b[i] == nil) {
			return false
		}
	}
	return true
}

func counts(l [][]byte) map[string]int {
	m := map[string]int{}
	for _, v := range l {
		m[string(v)]++
	}
	return m
}

func sameCounts(a, b map[string]int) bool {
	if len(a) != len(b) {
		return false
	}
	for k, v := range a {
		if b[k] != v {
			return false
		}
	}
	return true
}

func (r *runner) uintOp(width int, w []string) string {
	n, ok := canonNum(w[1])
	if !ok || n.neg || (width < 64 && n.mag >= 1<<uint(width)) {
		return "bad-op"
	}
	var res []byte
	pn, pv := call(func() {
		switch width {
		case 16:
			res = cbytes.FromUint16(uint16(n.mag))
		case 32:
			res = cbytes.FromUint32(uint32(n.mag))
		default:
			res = cbytes.FromUint64(n.mag)
		}
	})
	if pn {
		return r.unexpectedPanic(w[0], pv)
	}
	if len(res) != width/8 {
		r.fail("libcoll-fromuint-length", "%s(%d) has %d bytes", w[0], n.mag, len(res))
		return showHex(res)
	}
	// big endian: byte k is the k-th most significant base-256 digit
	for k := 0; k < len(res); k++ {
		if res[k] != byte(n.mag>>(8*uint(len(res)-1-k))) {
			r.fail("libcoll-fromuint-not-big-endian", "%s(%d) = %x", w[0], n.mag, res)
			break
		}
	}
	// round trip
	var back uint64
	switch width {
	case 16:
		back = uint64(binary.BigEndian.Uint16(res)) // the package has no ToUint16
	case 32:
		back = uint64(cbytes.ToUint32(res))
	default:
		back = cbytes.ToUint64(res)
	}
	if back != n.mag {
		r.fail("libcoll-uint-roundtrip", "ToUint%d(FromUint%d(%d)) = %d", width, width, n.mag, back)
	}
	// order isomorphism against the previous value of the same width in this case
	var last *uint64
	var have *bool
	switch width {
	case 16:
		last, have = &r.last16, &r.have16
	case 32:
		last, have = &r.last32, &r.have32
	default:
		last, have = &r.last64, &r.have64
	}
	if *have {
		var prev []byte
		switch width {
		case 16:
			prev = cbytes.FromUint16(uint16(*last))
		case 32:
			prev = cbytes.FromUint32(uint32(*last))
		default:
			prev = cbytes.FromUint64(*last)
		}
		want := 0
		if *last < n.mag {
			want = -1
		} else if *last > n.mag {
			want = 1
		}
		if got := refCompare(prev, res); got != want {
			r.fail("libcoll-uint-order", "FromUint%d(%d) vs FromUint%d(%d): byte order %d, numeric order %d", width, *last, width, n.mag, got, want)
		}
	}
	*last, *have = n.mag, true
	return showHex(res)
}

func (r *runner) step(w []string) string {
	const bad = "bad-op"
	if len(w) == 0 {
		return bad
	}
	switch {
	case w[0] == "reset" && len(w) == 1:
		*r = runner{fails: r.fails, op: r.op}
		return "ok"
	// ---------------------------------------------------------------- generic
	case (w[0] == "copy" || w[0] == "reverse") && len(w) == 2:
		a, ok := parseNumList(w[1])
		if !ok {
			return bad
		}
		if useSigned(a.l) {
			return genericOp[int64](r, w, a, numList{}, nil, 0, num{})
		}
		return genericOp[uint64](r, w, a, numList{}, nil, 0, num{})
	case (w[0] == "equal" || w[0] == "prefix") && len(w) == 3:
		a, ok1 := parseNumList(w[1])
		b, ok2 := parseNumList(w[2])
		if !ok1 || !ok2 {
			return bad
		}
		// the two lists are instantiated at one type when possible, else compared as int64 vs
		// uint64 is impossible in Go: such ops are malformed
		if !oneType(append(append([]num{}, a.l...), b.l...)) {
			return bad
		}
		if useSigned(a.l, b.l) {
			return genericOp[int64](r, w, a, b, nil, 0, num{})
		}
		return genericOp[uint64](r, w, a, b, nil, 0, num{})
	case (w[0] == "find" || w[0] == "findindex" || w[0] == "bsearch") && len(w) == 3:
		a, ok1 := parseNumList(w[1])
		p, ok2 := parsePred(w[2])
		if !ok1 || !ok2 {
			return bad
		}
		if useSigned(a.l) {
			return genericOp[int64](r, w, a, numList{}, p, 0, num{})
		}
		return genericOp[uint64](r, w, a, numList{}, p, 0, num{})
	case w[0] == "insert" && len(w) == 4:
		a, ok1 := parseNumList(w[1])
		idx, ok2 := goInt(w[2])
		v, ok3 := canonNum(w[3])
		if !ok1 || !ok2 || !ok3 || !oneType(append([]num{v}, a.l...)) {
			return bad
		}
		if useSigned(a.l, []num{v}) {
			return genericOp[int64](r, w, a, numList{}, nil, idx, v)
		}
		return genericOp[uint64](r, w, a, numList{}, nil, idx, v)
	// ---------------------------------------------------------------- bytes
	case (w[0] == "beq" || w[0] == "bcmp") && len(w) == 3:
		a, ok1 := hexTok(w[1])
		b, ok2 := hexTok(w[2])
		if !ok1 || !ok2 {
			return bad
		}
		var eq bool
		var c, cr int
		if pn, v := call(func() { eq = cbytes.Equal(a, b); c = cbytes.Compare(a, b); cr = cbytes.Compare(b, a) }); pn {
			return r.unexpectedPanic(w[0], v)
		}
		if c != refCompare(a, b) {
			r.fail("libcoll-compare-wrong", "Compare(%s, %s) = %d", w[1], w[2], c)
		}
		if c != -cr {
			r.fail("libcoll-compare-not-antisymmetric", "Compare(%s, %s) = %d, swapped %d", w[1], w[2], c, cr)
		}
		if eq != (c == 0) {
			r.fail("libcoll-equal-vs-compare", "Equal(%s, %s) = %v, Compare = %d", w[1], w[2], eq, c)
		}
		if w[0] == "beq" {
			return strconv.FormatBool(eq)
		}
		return strconv.Itoa(c)
	case w[0] == "repeat" && len(w) == 3:
		b, ok1 := hexTok(w[1])
		cnt, ok2 := goInt(w[2])
		if !ok1 || !ok2 {
			return bad
		}
		// products the process cannot allocate are outside the model (fatal error, not a panic)
		if cnt > 0 && len(b) > 0 && len(b) <= math.MaxInt/cnt && len(b)*cnt > 1<<20 {
			return bad
		}
		var res []byte
		pn, pv := call(func() { res = cbytes.Repeat(b, cnt) })
		expect := cnt < 0 || (cnt > 0 && len(b) > math.MaxInt/cnt)
		if pn != expect {
			r.fail("libcoll-repeat-panic", "Repeat(%d bytes, %d): panic=%v (%v)", len(b), cnt, pn, pv)
		}
		if pn {
			return "panic"
		}
		ok := res != nil && len(res) == len(b)*cnt
		for i := 0; ok && i < len(res); i++ {
			ok = res[i] == b[i%len(b)]
		}
		if !ok {
			r.fail("libcoll-repeat-wrong", "Repeat(%s, %d) = %s", w[1], cnt, showHex(res))
		}
		return showHex(res)
	case w[0] == "newreader" && len(w) == 2:
		b, ok := hexTok(w[1])
		if !ok {
			return bad
		}
		var out string
		if pn, v := call(func() {
			rd := cbytes.NewReader(b)
			l, s := rd.Len(), rd.Size()
			all, err := io.ReadAll(rd)
			if err != nil || !stdbytes.Equal(all, b) || l != len(b) || s != int64(len(b)) || rd.Len() != 0 {
				r.fail("libcoll-reader-wrong", "NewReader(%s): Len %d Size %d read %x err %v", w[1], l, s, all, err)
			}
			out = fmt.Sprintf("%d %d %s", l, s, corr.Hex(all))
		}); pn {
			return r.unexpectedPanic("newreader", v)
		}
		return out
	case w[0] == "isbitset" && len(w) == 3:
		b, ok1 := hexTok(w[1])
		idx, ok2 := goInt(w[2])
		if !ok1 || !ok2 {
			return bad
		}
		var res bool
		pn, pv := call(func() { res = cbytes.IsBitSet(b, idx) })
		inRange := idx >= 0 && idx < 8*len(b)
		if pn != !inRange {
			r.fail("libcoll-isbitset-panic-iff-out-of-range", "IsBitSet(%d bytes, %d): panic=%v (%v)", len(b), idx, pn, pv)
		}
		if pn {
			return "panic"
		}
		if want := (b[idx/8]>>(7-uint(idx%8)))&1 == 1; res != want {
			r.fail("libcoll-isbitset-wrong", "IsBitSet(%s, %d) = %v", w[1], idx, res)
		}
		if tb := cbytes.ToBools(b); tb[idx] != res {
			r.fail("libcoll-isbitset-vs-tobools", "IsBitSet(%s, %d) = %v, ToBools[%d] = %v", w[1], idx, res, idx, tb[idx])
		}
		return strconv.FormatBool(res)
	case w[0] == "frombools" && len(w) == 2:
		l, ok := parseBits(w[1])
		if !ok {
			return bad
		}
		orig := cloneT(l)
		var res []byte
		var back []bool
		if pn, v := call(func() { res = cbytes.FromBools(l); back = cbytes.ToBools(res) }); pn {
			return r.unexpectedPanic("frombools", v)
		}
		if res == nil || len(res) != (len(l)+7)/8 {
			r.fail("libcoll-frombools-length", "FromBools(%d bools) has %d bytes (nil=%v)", len(l), len(res), res == nil)
			return showHex(res)
		}
		// round trip: exactly (8 - n%8)%8 false values in FRONT of the input
		pad := (8 - len(l)%8) % 8
		want := append(make([]bool, pad), l...)
		if !sameT(back, want) {
			r.fail("libcoll-bools-roundtrip", "ToBools(FromBools(%s)) = %s, want %d leading false + input", w[1], showBits(back), pad)
		}
		// independent packing: bit i of the padded list is bit 7-i%8 of byte i/8
		for i, x := range want {
			if ((res[i/8]>>(7-uint(i%8)))&1 == 1) != x {
				r.fail("libcoll-frombools-wrong", "FromBools(%s) = %x: bit %d", w[1], res, i)
				break
			}
		}
		if !sameT(orig, l) {
			r.fail("libcoll-arg-mutated", "FromBools changed its argument")
		}
		return showHex(res)
	case w[0] == "tobools" && len(w) == 2:
		b, ok := hexTok(w[1])
		if !ok {
			return bad
		}
		var res []bool
		var back []byte
		if pn, v := call(func() { res = cbytes.ToBools(b); back = cbytes.FromBools(res) }); pn {
			return r.unexpectedPanic("tobools", v)
		}
		if res == nil || len(res) != 8*len(b) {
			r.fail("libcoll-tobools-length", "ToBools(%d bytes) has %d bools (nil=%v)", len(b), len(res), res == nil)
			return showBits(res)
		}
		for i, x := range res {
			if ((b[i/8]>>(7-uint(i%8)))&1 == 1) != x {
				r.fail("libcoll-tobools-wrong", "ToBools(%s): bit %d", w[1], i)
				break
			}
		}
		if !stdbytes.Equal(back, b) {
			r.fail("libcoll-bytes-roundtrip", "FromBools(ToBools(%s)) = %x", w[1], back)
		}
		return showBits(res)
	case (w[0] == "bcopy" || w[0] == "breverse") && len(w) == 2:
		b, ok := hexTok(w[1])
		if !ok {
			return bad
		}
		orig := cloneT(b)
		var res, back []byte
		if pn, v := call(func() {
			if w[0] == "bcopy" {
				res = cbytes.Copy(b)
				back = res
			} else {
				res = cbytes.Reverse(b)
				back = cbytes.Reverse(cbytes.Reverse(res))
			}
		}); pn {
			return r.unexpectedPanic(w[0], v)
		}
		ok = res != nil && len(res) == len(b)
		for i := 0; ok && i < len(b); i++ {
			if w[0] == "bcopy" {
				ok = res[i] == b[i]
			} else {
				ok = res[i] == b[len(b)-1-i] && back[i] == res[i]
			}
		}
		if !ok {
			r.fail("libcoll-"+w[0]+"-wrong", "%s(%s) = %s", w[0], w[1], showHex(res))
		}
		if len(res) > 0 {
			res[0] ^= 0xff
			if !stdbytes.Equal(orig, b) {
				r.fail("libcoll-"+w[0]+"-aliases", "writing to the result of %s(%s) changed the argument", w[0], w[1])
			}
			res[0] ^= 0xff
		}
		if !stdbytes.Equal(orig, b) {
			r.fail("libcoll-arg-mutated", "%s changed its argument", w[0])
		}
		return showHex(res)
	case w[0] == "bfindindex" && len(w) == 3:
		l, ok1 := parseHexList(w[1])
		t, ok2 := hexTok(w[2])
		if !ok1 || !ok2 {
			return bad
		}
		var res int
		if pn, v := call(func() { res = cbytes.FindIndex(l, t) }); pn {
			return r.unexpectedPanic("bfindindex", v)
		}
		first := -1
		for i, v := range l {
			if string(v) == string(t) {
				first = i
				break
			}
		}
		if res != first {
			r.fail("libcoll-bfindindex-not-first", "FindIndex(%s, %s) = %d, first occurrence %d", w[1], w[2], res, first)
		}
		// injective on the members of a duplicate-free list (the aggregation bitmap relies on it)
		if len(counts(l)) == len(l) {
			seen := map[int]bool{}
			for i, v := range l {
				j := cbytes.FindIndex(l, v)
				if j != i || seen[j] {
					r.fail("libcoll-bfindindex-not-injective", "duplicate-free %s: FindIndex(element %d) = %d", w[1], i, j)
					break
				}
				seen[j] = true
			}
		}
		return strconv.Itoa(res)
	case w[0] == "fromu16" && len(w) == 2:
		return r.uintOp(16, w)
	case w[0] == "fromu32" && len(w) == 2:
		return r.uintOp(32, w)
	case w[0] == "fromu64" && len(w) == 2:
		return r.uintOp(64, w)
	case (w[0] == "tou32" || w[0] == "tou64") && len(w) == 2:
		b, ok := hexTok(w[1])
		if !ok {
			return bad
		}
		n := 4
		if w[0] == "tou64" {
			n = 8
		}
		var res uint64
		var back []byte
		pn, pv := call(func() {
			if n == 4 {
				v := cbytes.ToUint32(b)
				res, back = uint64(v), cbytes.FromUint32(v)
			} else {
				res = cbytes.ToUint64(b)
				back = cbytes.FromUint64(res)
			}
		})
		if pn != (len(b) < n) {
			r.fail("libcoll-touint-panic-iff-short", "%s(%d bytes): panic=%v (%v)", w[0], len(b), pn, pv)
		}
		if pn {
			return "panic"
		}
		var want uint64
		for i := 0; i < n; i++ {
			want = want*256 + uint64(b[i])
		}
		if res != want {
			r.fail("libcoll-touint-wrong", "%s(%s) = %d", w[0], w[1], res)
		}
		if !stdbytes.Equal(back, b[:n]) {
			r.fail("libcoll-uint-roundtrip", "FromUint(%s(%s)) = %x", w[0], w[1], back)
		}
		return strconv.FormatUint(res, 10)
	case w[0] == "join" && len(w) == 2:
		l, ok := parseHexList(w[1])
		if !ok {
			return bad
		}
		orig := cloneBL(l)
		var res []byte
		if pn, v := call(func() { res = cbytes.Join(l...) }); pn {
			return r.unexpectedPanic("join", v)
		}
		want := refConcat(l)
		if res == nil || !stdbytes.Equal(res, want) {
			r.fail("libcoll-join-not-concat", "Join(%s) = %s", w[1], showHex(res))
		}
		if len(l) > 0 && (len(res) < len(l[0]) || !stdbytes.Equal(res[:len(l[0])], l[0])) {
			r.fail("libcoll-join-prefix", "Join(%s) does not start with its first argument", w[1])
		}
		// injective in the key for a fixed prefix (2-argument form used for DB keys)
		if len(l) == 2 {
			if r.haveJoin && stdbytes.Equal(r.lastJoinPrefix, l[0]) && !stdbytes.Equal(r.lastJoinK, l[1]) &&
				stdbytes.Equal(cbytes.Join(r.lastJoinPrefix, r.lastJoinK), res) {
				r.fail("libcoll-join-not-injective", "Join(p, %x) = Join(p, %x)", r.lastJoinK, l[1])
			}
			r.lastJoinPrefix, r.lastJoinK, r.haveJoin = l[0], l[1], true
		}
		if len(res) > 0 {
			res[0] ^= 0xff
		}
		if !sameBL(orig, l) {
			r.fail("libcoll-join-aliases", "writing to Join(%s) changed an argument", w[1])
		}
		if len(res) > 0 {
			res[0] ^= 0xff
		}
		return showHex(res)
	case w[0] == "joinsize" && len(w) == 3:
		size, ok1 := goInt(w[1])
		l, ok2 := parseHexList(w[2])
		if !ok1 || !ok2 || size > 1<<20 {
			return bad
		}
		var res []byte
		pn, pv := call(func() { res = cbytes.JoinSize(size, l...) })
		if pn != (size < 0) {
			r.fail("libcoll-joinsize-panic-iff-negative", "JoinSize(%d, %s): panic=%v (%v)", size, w[2], pn, pv)
		}
		if pn {
			return "panic"
		}
		if size < 0 {
			return showHex(res)
		}
		want := refConcat(l)
		if size == len(want) {
			// the way every caller in /repo uses it: size = sum of the lengths
			if !stdbytes.Equal(res, want) {
				r.fail("libcoll-joinsize-not-concat", "JoinSize(%d, %s) = %s", size, w[2], showHex(res))
			}
		}
		for len(want) < size {
			want = append(want, 0)
		}
		if res == nil || !stdbytes.Equal(res, want[:size]) {
			r.fail("libcoll-joinsize-wrong", "JoinSize(%d, %s) = %s", size, w[2], showHex(res))
		}
		return showHex(res)
	case w[0] == "joinslice" && len(w) == 3:
		a, ok1 := parseHexList(w[1])
		b, ok2 := parseHexList(w[2])
		if !ok1 || !ok2 {
			return bad
		}
		var res [][]byte
		if pn, v := call(func() { res = cbytes.JoinSlice(a, b) }); pn {
			return r.unexpectedPanic("joinslice", v)
		}
		ok := res != nil && len(res) == len(a)+len(b)
		for i := 0; ok && i < len(res); i++ {
			if i < len(a) {
				ok = string(res[i]) == string(a[i]) && (res[i] == nil) == (a[i] == nil)
			} else {
				ok = string(res[i]) == string(b[i-len(a)]) && (res[i] == nil) == (b[i-len(a)] == nil)
			}
		}
		if !ok {
			r.fail("libcoll-joinslice-wrong", "JoinSlice(%s, %s) = %s", w[1], w[2], showHexList(res))
		}
		return showHexList(res)
	case w[0] == "bsort" && len(w) == 2:
		l, ok := parseHexList(w[1])
		if !ok {
			return bad
		}
		before := counts(l)
		wasNil := l == nil
		if pn, v := call(func() { cbytes.Sort(l) }); pn {
			return r.unexpectedPanic("bsort", v)
		}
		for i := 1; i < len(l); i++ {
			if refCompare(l[i-1], l[i]) > 0 {
				r.fail("libcoll-sort-not-sorted", "Sort(%s) = %s", w[1], showHexList(l))
				break
			}
		}
		if !sameCounts(before, counts(l)) {
			r.fail("libcoll-sort-not-permutation", "Sort(%s) = %s", w[1], showHexList(l))
		}
		if !cbytes.IsSorted(l) {
			r.fail("libcoll-sort-vs-issorted", "IsSorted(Sort(%s)) = false", w[1])
		}
		again := cloneBL(l)
		cbytes.Sort(again)
		for i := range l {
			if string(again[i]) != string(l[i]) {
				r.fail("libcoll-sort-not-idempotent", "Sort(Sort(%s)) differs at %d", w[1], i)
				break
			}
		}
		if wasNil {
			return "[]" // Sort is in place: a nil argument stays nil; the model has one empty list
		}
		return showHexList(l)
	case w[0] == "bissorted" && len(w) == 2:
		l, ok := parseHexList(w[1])
		if !ok {
			return bad
		}
		var res bool
		if pn, v := call(func() { res = cbytes.IsSorted(l) }); pn {
			return r.unexpectedPanic("bissorted", v)
		}
		want := true
		for i := 1; i < len(l); i++ {
			want = want && refCompare(l[i-1], l[i]) <= 0
		}
		if res != want {
			r.fail("libcoll-issorted-wrong", "IsSorted(%s) = %v", w[1], res)
		}
		return strconv.FormatBool(res)
	case (w[0] == "bunique" || w[0] == "bisunique") && len(w) == 2:
		l, ok := parseHexList(w[1])
		if !ok {
			return bad
		}
		orig := cloneBL(l)
		var res [][]byte
		var isu bool
		if pn, v := call(func() { res = cbytes.Unique(l); isu = cbytes.IsUnique(l) }); pn {
			return r.unexpectedPanic(w[0], v)
		}
		cl, cr := counts(l), counts(res)
		ok = res != nil && len(cr) == len(res) && len(cr) == len(cl)
		for k := range cl {
			ok = ok && cr[k] == 1
		}
		for _, e := range res {
			ok = ok && e != nil
		}
		if !ok {
			r.fail("libcoll-bunique-wrong", "Unique(%s) = %s", w[1], showHexList(res))
		}
		if isu != (len(cl) == len(l)) {
			r.fail("libcoll-bisunique-wrong", "IsUnique(%s) = %v", w[1], isu)
		}
		if again := cbytes.Unique(res); !sameCounts(counts(again), cr) || len(again) != len(res) {
			r.fail("libcoll-bunique-not-idempotent", "Unique(Unique(%s)) differs", w[1])
		}
		if !sameBL(orig, l) {
			r.fail("libcoll-arg-mutated", "Unique changed its argument")
		}
		if w[0] == "bisunique" {
			return strconv.FormatBool(isu)
		}
		sort.Slice(res, func(i, j int) bool { return refCompare(res[i], res[j]) < 0 })
		return showHexList(res)
	// ---------------------------------------------------------------- ints
	case (w[0] == "imax" || w[0] == "imin" || w[0] == "iunique" || w[0] == "iisunique") && len(w) == 2:
		a, ok := parseNumList(w[1])
		if !ok {
			return bad
		}
		if useSigned(a.l) {
			return intsOp[int64](r, w, a, num{})
		}
		return intsOp[uint64](r, w, a, num{})
	case w[0] == "iinclude" && len(w) == 3:
		a, ok1 := parseNumList(w[1])
		v, ok2 := canonNum(w[2])
		if !ok1 || !ok2 || !oneType(append([]num{v}, a.l...)) {
			return bad
		}
		if useSigned(a.l, []num{v}) {
			return intsOp[int64](r, w, a, v)
		}
		return intsOp[uint64](r, w, a, v)
	// ---------------------------------------------------------------- strings
	case w[0] == "scontain" && len(w) == 3:
		l, ok1 := parseHexList(w[1])
		t, ok2 := hexTok(w[2])
		if !ok1 || !ok2 {
			return bad
		}
		ss := toStrings(l)
		var res bool
		if pn, v := call(func() { res = cstrings.Contain(ss, string(t)) }); pn {
			return r.unexpectedPanic("scontain", v)
		}
		want := false
		for _, s := range ss {
			want = want || s == string(t)
		}
		if res != want {
			r.fail("libcoll-scontain-wrong", "Contain(%s, %s) = %v", w[1], w[2], res)
		}
		return strconv.FormatBool(res)
	case (w[0] == "sunique" || w[0] == "sisunique") && len(w) == 2:
		l, ok := parseHexList(w[1])
		if !ok {
			return bad
		}
		ss := toStrings(l)
		var res []string
		var isu bool
		if pn, v := call(func() { res = cstrings.Unique(ss); isu = cstrings.IsUnique(ss) }); pn {
			return r.unexpectedPanic(w[0], v)
		}
		cl := map[string]int{}
		for _, s := range ss {
			cl[s]++
		}
		cr := map[string]int{}
		for _, s := range res {
			cr[s]++
		}
		ok = res != nil && len(cr) == len(res) && len(cr) == len(cl)
		for k := range cl {
			ok = ok && cr[k] == 1
		}
		if !ok {
			r.fail("libcoll-sunique-wrong", "strings.Unique(%s) = %q", w[1], res)
		}
		if isu != (len(cl) == len(ss)) {
			r.fail("libcoll-sisunique-wrong", "strings.IsUnique(%s) = %v", w[1], isu)
		}
		if w[0] == "sisunique" {
			return strconv.FormatBool(isu)
		}
		sort.Strings(res)
		out := make([][]byte, len(res))
		for i, s := range res {
			out[i] = []byte(s)
		}
		if res == nil {
			return "nil"
		}
		return showHexList(out)
	case w[0] == "genrandom" && len(w) == 2:
		n, ok := goInt(w[1])
		if !ok || n > 1<<16 {
			return bad
		}
		var res string
		pn, pv := call(func() { res = cstrings.GenerateRandom(n) })
		if pn != (n < 0) {
			r.fail("libcoll-genrandom-panic-iff-negative", "GenerateRandom(%d): panic=%v (%v)", n, pn, pv)
		}
		if pn {
			return "panic"
		}
		alpha := true
		for _, c := range res {
			alpha = alpha && strings.ContainsRune("abcdefghijklmnopqrstuvwxyzABCDEFGHIJKLMNOPQRSTUVWXYZ0123456789", c)
		}
		if len(res) != n || !alpha {
			r.fail("libcoll-genrandom-wrong", "GenerateRandom(%d) = %q", n, res)
		}
		return fmt.Sprintf("len=%d alpha=%v", len([]rune(res)), alpha)
	}
	return bad
}

func toStrings(l [][]byte) []string {
	if l == nil {
		return nil
	}
	ss := make([]string, len(l))
	for i, b := range l {
		ss[i] = string(b)
	}
	return ss
}

func intsOp[T interface {
	gint
	ints.Integer
}](r *runner, w []string, a numList, v num) string {
	la := fromNums[T](a)
	orig := cloneT(la)
	defer func() {
		if !sameT(orig, la) {
			r.fail("libcoll-arg-mutated", "%s changed its argument %v -> %v", w[0], orig, la)
		}
	}()
	switch w[0] {
	case "imax", "imin":
		var res T
		pn, pv := call(func() {
			if w[0] == "imax" {
				res = ints.Max(la...)
			} else {
				res = ints.Min(la...)
			}
		})
		if pn != (len(la) == 0) {
			r.fail("libcoll-minmax-panic-iff-empty", "%s(%s): panic=%v (%v)", w[0], w[1], pn, pv)
		}
		if pn {
			return "panic"
		}
		member, bound := false, true
		for _, x := range la {
			member = member || x == res
			if w[0] == "imax" {
				bound = bound && x <= res
			} else {
				bound = bound && x >= res
			}
		}
		if !member || !bound {
			r.fail("libcoll-"+w[0]+"-wrong", "%s(%s) = %v", w[0], w[1], res)
		}
		return toNum(res).String()
	case "iunique", "iisunique":
		var res []T
		var isu bool
		if pn, pv := call(func() { res = ints.Unique(la); isu = ints.IsUnique(la) }); pn {
			return r.unexpectedPanic(w[0], pv)
		}
		cl, cr := map[T]int{}, map[T]int{}
		for _, x := range la {
			cl[x]++
		}
		for _, x := range res {
			cr[x]++
		}
		ok := res != nil && len(cr) == len(res) && len(cr) == len(cl)
		for k := range cl {
			ok = ok && cr[k] == 1
		}
		if !ok {
			r.fail("libcoll-iunique-wrong", "ints.Unique(%s) = %v", w[1], res)
		}
		if isu != (len(cl) == len(la)) {
			r.fail("libcoll-iisunique-wrong", "ints.IsUnique(%s) = %v", w[1], isu)
		}
		if w[0] == "iisunique" {
			return strconv.FormatBool(isu)
		}
		sort.Slice(res, func(i, j int) bool { return res[i] < res[j] })
		return showNums(toNums(res), res == nil)
	case "iinclude":
		var t T
		if v.neg {
			t = T(v.i64())
		} else {
			t = T(v.mag)
		}
		var res bool
		if pn, pv := call(func() { res = ints.Include(la, t) }); pn {
			return r.unexpectedPanic("iinclude", pv)
		}
		want := false
		for _, x := range la {
			want = want || x == t
		}
		if res != want {
			r.fail("libcoll-iinclude-wrong", "Include(%s, %s) = %v", w[1], w[2], res)
		}
		return strconv.FormatBool(res)
	}
	return "bad-op"
}

func (prop) RunImpl(c corr.Case) ([]string, []corr.Fail) {
	r := &runner{}
	out := make([]string, len(c.Ops))
	for i, op := range c.Ops {
		r.op = i
		func() {
			defer func() {
				if p := recover(); p != nil {
					out[i] = "panic"
					r.fails = append(r.fails, corr.Fail{Sig: "libcoll-harness-panic", Detail: fmt.Sprintf("%s: %v", op, p), Op: i})
				}
			}()
			out[i] = r.step(strings.Fields(op))
		}()
	}
	return out, r.fails
}

// Classify: family of the case (its tag) + the non-default behaviours it showed.
func (prop) Classify(c corr.Case, out []string) string {
	flags := map[string]bool{}
	for i, op := range c.Ops {
		if i >= len(out) {
			break
		}
		w := strings.Fields(op)
		if len(w) == 0 {
			continue
		}
		switch {
		case out[i] == "bad-op":
			flags["malformed"] = true
		case out[i] == "panic":
			flags["panic:"+w[0]] = true
		case w[0] == "frombools" && len(w[1])%8 != 0 && w[1] != "[]" && w[1] != "nil":
			flags["padded"] = true
		case w[0] == "joinsize":
			flags["joinsize"] = true
		case w[0] == "bsearch" || w[0] == "bsort" || w[0] == "bunique" || w[0] == "insert":
			flags[w[0]] = true
		case strings.HasPrefix(w[0], "fromu") || strings.HasPrefix(w[0], "tou"):
			flags["uint"] = true
		case w[0] != "reset":
			flags["other"] = true
		}
	}
	if len(flags) == 0 {
		return ""
	}
	ks := make([]string, 0, len(flags))
	for k := range flags {
		ks = append(ks, k)
	}
	sort.Strings(ks)
	if len(ks) > 6 {
		ks = append(ks[:6], "...")
	}
	return c.Tag + ":" + strings.Join(ks, "+")
}
