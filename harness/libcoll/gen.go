package libcoll

import (
	"fmt"
	"math/rand"
	"sort"
	"strconv"
	"strings"

	"verifharness/corr"
)

// ---------------------------------------------------------------------------------------------
// value generators (every choice derives from rng)

var boundaries = []uint64{0, 1, 2, 127, 128, 254, 255, 256, 257, 65534, 65535, 65536, 65537,
	1<<31 - 1, 1 << 31, 1<<32 - 2, 1<<32 - 1, 1 << 32, 1<<32 + 1, 1<<63 - 1, 1 << 63, 1<<63 + 1, 1<<64 - 2, 1<<64 - 1}

// genU: an unsigned value below 2^bits, biased to the boundaries 0, 1, 2^8±1, 2^16±1, 2^32-1, 2^63, 2^64-1.
func genU(rng *rand.Rand, bits uint) uint64 {
	mask := ^uint64(0)
	if bits < 64 {
		mask = 1<<bits - 1
	}
	switch rng.Intn(10) {
	case 0, 1, 2, 3:
		for {
			b := boundaries[rng.Intn(len(boundaries))]
			if b <= mask {
				return b
			}
		}
	case 4, 5:
		return uint64(rng.Intn(11))
	case 6:
		return mask - uint64(rng.Intn(3))
	case 7:
		return (boundaries[rng.Intn(len(boundaries))] + uint64(rng.Intn(5)) - 2) & mask
	default:
		return rng.Uint64() & mask
	}
}

func genSigned(rng *rand.Rand) num {
	switch rng.Intn(8) {
	case 0:
		return num{true, 1 << 63} // math.MinInt64
	case 1:
		return num{true, 1}
	case 2:
		return num{false, 1<<63 - 1}
	case 3:
		return num{false, 0}
	case 4:
		return num{true, uint64(1 + rng.Intn(5))}
	case 5:
		return num{false, uint64(rng.Intn(5))}
	default:
		m := rng.Uint64() >> 1
		if rng.Intn(2) == 0 && m != 0 {
			return num{true, m}
		}
		return num{false, m}
	}
}

func sortNums(l []num, desc bool) {
	sort.SliceStable(l, func(i, j int) bool {
		if desc {
			return l[i].cmp(l[j]) > 0
		}
		return l[i].cmp(l[j]) < 0
	})
}

// genNumList returns the token of an integer list and the list.
func genNumList(rng *rand.Rand) (string, []num) {
	var l []num
	switch rng.Intn(14) {
	case 0:
		return "nil", nil
	case 1:
		return "[]", nil
	case 2:
		l = []num{{false, genU(rng, 64)}}
	case 3: // duplicate heavy
		n := 2 + rng.Intn(11)
		for i := 0; i < n; i++ {
			l = append(l, num{false, uint64(rng.Intn(3))})
		}
	case 4, 5: // already sorted
		n := 1 + rng.Intn(20)
		for i := 0; i < n; i++ {
			l = append(l, num{false, uint64(rng.Intn(40))})
		}
		sortNums(l, false)
	case 6: // reverse sorted
		n := 1 + rng.Intn(20)
		for i := 0; i < n; i++ {
			l = append(l, num{false, uint64(rng.Intn(40))})
		}
		sortNums(l, true)
	case 7: // boundary values
		n := 1 + rng.Intn(8)
		for i := 0; i < n; i++ {
			l = append(l, num{false, genU(rng, 64)})
		}
		if rng.Intn(2) == 0 {
			sortNums(l, rng.Intn(3) == 0)
		}
	case 8, 9: // signed
		n := 1 + rng.Intn(8)
		for i := 0; i < n; i++ {
			l = append(l, genSigned(rng))
		}
		if rng.Intn(2) == 0 {
			sortNums(l, rng.Intn(3) == 0)
		}
	case 10: // long, sorted, distinct (binary search over several levels)
		n := 30 + rng.Intn(70)
		v := uint64(rng.Intn(5))
		for i := 0; i < n; i++ {
			l = append(l, num{false, v})
			v += uint64(1 + rng.Intn(3))
		}
	case 11: // long with plateaus
		n := 15 + rng.Intn(50)
		v := uint64(0)
		for i := 0; i < n; i++ {
			l = append(l, num{false, v})
			if rng.Intn(3) == 0 {
				v++
			}
		}
	default:
		n := 1 + rng.Intn(12)
		for i := 0; i < n; i++ {
			l = append(l, num{false, uint64(rng.Intn(20))})
		}
	}
	return showNums(l, false), l
}

// mutateNums: a list related to l (equal, one element changed, truncated, extended).
func mutateNums(rng *rand.Rand, l []num) string {
	m := append([]num{}, l...)
	switch rng.Intn(6) {
	case 0:
	case 1:
		if len(m) > 0 {
			i := rng.Intn(len(m))
			if m[i].neg {
				m[i] = num{true, m[i].mag%5 + 1}
			} else {
				m[i] = num{false, m[i].mag ^ 1}
			}
		}
	case 2:
		if len(m) > 0 {
			m = m[:rng.Intn(len(m))]
		}
	case 3:
		m = append(m, num{false, uint64(rng.Intn(4))})
	case 4:
		if len(m) > 0 { // change the last element
			m[len(m)-1] = num{false, 3}
		}
	default:
		s, _ := genNumList(rng)
		return s
	}
	if !oneType(m) {
		return showNums(l, false)
	}
	if len(m) == 0 && rng.Intn(2) == 0 {
		return "nil"
	}
	return showNums(m, false)
}

func genPred(rng *rand.Rand, l []num) string {
	pick := func() num {
		if len(l) > 0 && rng.Intn(4) != 0 {
			x := l[rng.Intn(len(l))]
			switch rng.Intn(4) {
			case 0:
				if !x.neg && x.mag < 1<<64-1 {
					x.mag++
				}
			case 1:
				if !x.neg && x.mag > 0 {
					x.mag--
				}
			}
			return x
		}
		if rng.Intn(3) == 0 {
			return genSigned(rng)
		}
		return num{false, genU(rng, 64)}
	}
	switch rng.Intn(12) {
	case 0:
		return "T"
	case 1:
		return "F"
	case 2, 3, 4:
		return "ge:" + pick().String()
	case 5:
		return "gt:" + pick().String()
	case 6:
		return "lt:" + pick().String()
	case 7:
		return "le:" + pick().String()
	case 8:
		return "eq:" + pick().String()
	case 9:
		return "ne:" + pick().String()
	case 10:
		m := 2 + rng.Intn(4)
		return fmt.Sprintf("mod:%d:%d", m, rng.Intn(m))
	default:
		n := 1 + rng.Intn(4)
		s := make([]string, n)
		for i := range s {
			s[i] = pick().String()
		}
		return "in:" + strings.Join(s, ";")
	}
}

var bigInts = []string{"2147483647", "2147483648", "4294967296", "4611686018427387904", "9223372036854775807", "-9223372036854775808", "-2147483649"}

// genIndex: an index at and beyond both ends of a slice of n elements.
func genIndex(rng *rand.Rand, n int) string {
	switch rng.Intn(12) {
	case 0:
		return "-1"
	case 1:
		return "0"
	case 2:
		return strconv.Itoa(n)
	case 3:
		return strconv.Itoa(n + 1)
	case 4:
		return strconv.Itoa(n - 1)
	case 5:
		return bigInts[rng.Intn(len(bigInts))]
	case 6:
		return strconv.Itoa(-1 - rng.Intn(20))
	case 7:
		return strconv.Itoa(n + rng.Intn(20))
	default:
		return strconv.Itoa(rng.Intn(n + 1))
	}
}

type env struct {
	prefixes [][]byte // long prefixes shared by the byte strings of one case
}

func newEnv(rng *rand.Rand) *env {
	e := &env{}
	for i := 0; i < 3; i++ {
		p := make([]byte, 4+rng.Intn(36))
		for j := range p {
			p[j] = []byte{0x00, 0x01, 0x7f, 0x80, 0xff, byte(rng.Intn(256))}[rng.Intn(6)]
		}
		e.prefixes = append(e.prefixes, p)
	}
	// the second prefix extends the first: keys that are proper prefixes of one another
	e.prefixes[1] = append(append([]byte{}, e.prefixes[0]...), e.prefixes[1][:1+rng.Intn(3)]...)
	return e
}

var suffixAlphabet = []byte{0x00, 0x01, 0xff}

// genBytes returns the token and the value (nil for the `nil` token).
func (e *env) genBytes(rng *rand.Rand) (string, []byte) {
	var b []byte
	switch rng.Intn(12) {
	case 0:
		return "nil", nil
	case 1:
		return "-", []byte{}
	case 2:
		b = []byte{[]byte{0x00, 0x01, 0x7f, 0x80, 0xff}[rng.Intn(5)]}
	case 3, 4, 5, 6: // long shared prefix + short suffix
		b = append([]byte{}, e.prefixes[rng.Intn(len(e.prefixes))]...)
		for n := rng.Intn(4); n > 0; n-- {
			b = append(b, suffixAlphabet[rng.Intn(3)])
		}
	case 7: // proper prefix of a shared prefix
		p := e.prefixes[rng.Intn(len(e.prefixes))]
		b = append([]byte{}, p[:rng.Intn(len(p)+1)]...)
	case 8:
		b = make([]byte, 1+rng.Intn(9))
		if rng.Intn(2) == 0 {
			for i := range b {
				b[i] = 0xff
			}
		}
	default:
		b = make([]byte, 1+rng.Intn(12))
		for i := range b {
			b[i] = byte(rng.Intn(256))
		}
	}
	if len(b) == 0 {
		return "-", []byte{}
	}
	return corr.Hex(b), b
}

func tokensOf(l [][]byte) string {
	if l == nil {
		return "nil"
	}
	if len(l) == 0 {
		return "[]"
	}
	s := make([]string, len(l))
	for i, b := range l {
		s[i] = showHex(b) // `nil` elements stay `nil`
	}
	return strings.Join(s, ",")
}

func (e *env) genBytesList(rng *rand.Rand) (string, [][]byte) {
	var l [][]byte
	add := func(n int) {
		for i := 0; i < n; i++ {
			_, b := e.genBytes(rng)
			l = append(l, b)
		}
	}
	switch rng.Intn(12) {
	case 0:
		return "nil", nil
	case 1:
		return "[]", [][]byte{}
	case 2:
		add(1)
	case 3: // duplicate heavy, nil and empty elements
		pool := [][]byte{nil, {}, {0x00}}
		_, b := e.genBytes(rng)
		pool = append(pool, b)
		for n := 2 + rng.Intn(10); n > 0; n-- {
			l = append(l, pool[rng.Intn(len(pool))])
		}
	case 4, 5: // already sorted
		add(2 + rng.Intn(12))
		sort.SliceStable(l, func(i, j int) bool { return refCompare(l[i], l[j]) < 0 })
	case 6: // reverse sorted
		add(2 + rng.Intn(12))
		sort.SliceStable(l, func(i, j int) bool { return refCompare(l[i], l[j]) > 0 })
	case 7: // beyond the insertion-sort threshold of sort.Sort (12)
		add(13 + rng.Intn(60))
	case 8: // duplicate free
		add(2 + rng.Intn(10))
		seen := map[string]bool{}
		var d [][]byte
		for _, b := range l {
			if !seen[string(b)] {
				seen[string(b)] = true
				d = append(d, b)
			}
		}
		l = d
	default:
		add(2 + rng.Intn(10))
	}
	return tokensOf(l), l
}

var bitLens = []int{0, 1, 2, 7, 8, 9, 15, 16, 17, 23, 24, 25, 31, 33, 63, 64, 65}

func genBits(rng *rand.Rand) string {
	n := bitLens[rng.Intn(len(bitLens))]
	if rng.Intn(4) == 0 {
		n = rng.Intn(81)
	}
	if n == 0 {
		if rng.Intn(2) == 0 {
			return "nil"
		}
		return "[]"
	}
	b := make([]byte, n)
	mode := rng.Intn(5)
	lead := rng.Intn(n + 1)
	for i := range b {
		b[i] = '0'
		switch mode {
		case 0:
		case 1:
			b[i] = '1'
		case 2: // leading false values, then the first true
			if i == lead || (i > lead && rng.Intn(2) == 0) {
				b[i] = '1'
			}
		default:
			if rng.Intn(2) == 0 {
				b[i] = '1'
			}
		}
	}
	return string(b)
}

// ---------------------------------------------------------------------------------------------
// op generators per family

func (e *env) genericOp(rng *rand.Rand) string {
	ls, l := genNumList(rng)
	switch rng.Intn(10) {
	case 0:
		return "copy " + ls
	case 1:
		return "equal " + ls + " " + mutateNums(rng, l)
	case 2:
		return "find " + ls + " " + genPred(rng, l)
	case 3:
		return "findindex " + ls + " " + genPred(rng, l)
	case 4, 5:
		v := num{false, uint64(rng.Intn(100))}
		if useSigned(l) {
			v = genSigned(rng)
		} else if rng.Intn(3) == 0 {
			v = num{false, genU(rng, 64)}
		}
		if !oneType(append([]num{v}, l...)) {
			v = num{false, 5}
		}
		return "insert " + ls + " " + genIndex(rng, len(l)) + " " + v.String()
	case 6:
		return "prefix " + ls + " " + mutateNums(rng, l)
	case 7:
		return "reverse " + ls
	default:
		return "bsearch " + ls + " " + genPred(rng, l)
	}
}

func (e *env) bytesOp(rng *rand.Rand) string {
	as, a := e.genBytes(rng)
	switch rng.Intn(9) {
	case 0:
		bs, _ := e.genBytes(rng)
		return "beq " + as + " " + bs
	case 1, 2:
		bs, _ := e.genBytes(rng)
		if rng.Intn(4) == 0 {
			bs = as
		}
		return "bcmp " + as + " " + bs
	case 3:
		cnt := []string{"-1", "0", "1", "2", "3", "17", "9223372036854775807", "-9223372036854775808", "4611686018427387904"}[rng.Intn(9)]
		if len(a) > 1 && rng.Intn(4) == 0 {
			// the overflow boundary: maxInt/len(b) (too large to allocate: rejected) and one more (panics)
			q := uint64(1<<63-1) / uint64(len(a))
			cnt = strconv.FormatUint(q+uint64(rng.Intn(2)), 10)
		}
		return "repeat " + as + " " + cnt
	case 4:
		return "newreader " + as
	case 5:
		return "bcopy " + as
	case 6:
		return "breverse " + as
	default:
		ls, l := e.genBytesList(rng)
		if len(l) > 0 && rng.Intn(3) != 0 {
			as = showHex(l[rng.Intn(len(l))])
			if as == "nil" && rng.Intn(2) == 0 {
				as = "-"
			}
		}
		return "bfindindex " + ls + " " + as
	}
}

func (e *env) bitsOp(rng *rand.Rand) string {
	switch rng.Intn(3) {
	case 0:
		return "frombools " + genBits(rng)
	case 1:
		as, _ := e.genBytes(rng)
		return "tobools " + as
	default:
		as, a := e.genBytes(rng)
		n := 8 * len(a)
		var idx string
		switch rng.Intn(10) {
		case 0:
			idx = []string{"-9", "-8", "-7", "-1", "7", "8"}[rng.Intn(6)]
		case 1:
			idx = strconv.Itoa(n - 1)
		case 2:
			idx = strconv.Itoa(n)
		case 3:
			idx = strconv.Itoa(n + 1 + rng.Intn(8))
		case 4:
			idx = bigInts[rng.Intn(len(bigInts))]
		default:
			idx = strconv.Itoa(rng.Intn(n + 1))
		}
		return "isbitset " + as + " " + idx
	}
}

func (e *env) uintOp(rng *rand.Rand) string {
	switch rng.Intn(6) {
	case 0:
		return "fromu16 " + strconv.FormatUint(genU(rng, 16), 10)
	case 1, 2:
		return "fromu32 " + strconv.FormatUint(genU(rng, 32), 10)
	case 3:
		return "fromu64 " + strconv.FormatUint(genU(rng, 64), 10)
	default:
		op := "tou32 "
		w := 4
		if rng.Intn(2) == 0 {
			op, w = "tou64 ", 8
		}
		var b []byte
		switch rng.Intn(4) {
		case 0: // short
			b = make([]byte, rng.Intn(w))
			for i := range b {
				b[i] = byte(rng.Intn(256))
			}
		case 1: // exact, boundary value
			v := genU(rng, uint(8*w))
			b = make([]byte, w)
			for i := range b {
				b[i] = byte(v >> (8 * uint(w-1-i)))
			}
		case 2: // longer: the tail is ignored
			b = make([]byte, w+1+rng.Intn(4))
			for i := range b {
				b[i] = byte(rng.Intn(256))
			}
		default:
			_, b = e.genBytes(rng)
		}
		s := showHex(b)
		if len(b) == 0 && b != nil {
			s = "-"
		}
		return op + s
	}
}

func (e *env) joinOp(rng *rand.Rand) string {
	ls, l := e.genBytesList(rng)
	switch rng.Intn(6) {
	case 0, 1:
		if rng.Intn(2) == 0 { // the DB-key form Join(prefix, key)
			ps, _ := e.genBytes(rng)
			if rng.Intn(2) == 0 {
				ps = corr.Hex(e.prefixes[0])
			}
			ks, _ := e.genBytes(rng)
			return "join " + ps + "," + ks
		}
		return "join " + ls
	case 2, 3, 4:
		total := len(refConcat(l))
		var size string
		switch rng.Intn(8) {
		case 0:
			size = "0"
		case 1:
			size = "-1"
		case 2:
			size = strconv.Itoa(total + 1 + rng.Intn(5))
		case 3:
			size = strconv.Itoa(total - 1)
		case 4:
			size = []string{"-9223372036854775808", "-2"}[rng.Intn(2)]
		case 5:
			size = strconv.Itoa(rng.Intn(total + 2))
		default:
			size = strconv.Itoa(total)
		}
		return "joinsize " + size + " " + ls
	default:
		ms, _ := e.genBytesList(rng)
		return "joinslice " + ls + " " + ms
	}
}

func (e *env) sortOp(rng *rand.Rand) string {
	ls, _ := e.genBytesList(rng)
	return []string{"bsort ", "bsort ", "bissorted ", "bunique ", "bunique ", "bisunique "}[rng.Intn(6)] + ls
}

func (e *env) intsOp(rng *rand.Rand) string {
	ls, l := genNumList(rng)
	switch rng.Intn(7) {
	case 0, 1:
		return "imax " + ls
	case 2, 3:
		return "imin " + ls
	case 4:
		return "iunique " + ls
	case 5:
		return "iisunique " + ls
	default:
		v := num{false, uint64(rng.Intn(5))}
		if len(l) > 0 && rng.Intn(2) == 0 {
			v = l[rng.Intn(len(l))]
		}
		if !oneType(append([]num{v}, l...)) {
			v = num{false, 1}
		}
		return "iinclude " + ls + " " + v.String()
	}
}

func (e *env) stringsOp(rng *rand.Rand) string {
	ls, l := e.genBytesList(rng)
	switch rng.Intn(5) {
	case 0:
		t, _ := e.genBytes(rng)
		if len(l) > 0 && rng.Intn(2) == 0 {
			t = showHex(l[rng.Intn(len(l))])
		}
		return "scontain " + ls + " " + t
	case 1, 2:
		return "sunique " + ls
	case 3:
		return "sisunique " + ls
	default:
		return "genrandom " + []string{"-1", "0", "1", "5", "62", "100", "-9223372036854775808", "1000"}[rng.Intn(8)]
	}
}

var malformed = []string{
	"copy 1,,2", "copy -0", "copy 01", "copy 1,-9223372036854775809", "copy -1,18446744073709551615", "copy 18446744073709551616",
	"copy +1", "copy", "copy 1 2", "equal 1", "equal -1 18446744073709551615", "find 1,2 lt:", "find 1,2 xx:1", "find 1,2 mod:0:1",
	"find 1,2 in:", "find 1,2 mod:2", "bsearch 1,2 lt:18446744073709551616", "bsearch 1,2", "insert 1,2 1", "insert 1,2 9223372036854775808 1",
	"insert -1 0 18446744073709551615", "insert 1 x 1", "beq AB ab", "beq abc ab", "bcmp zz 00", "bcmp 00", "repeat ab x", "repeat ab 9223372036854775808",
	"repeat ab 4611686018427387904", "isbitset ab 9223372036854775808", "isbitset ab", "frombools 012", "frombools", "tobools 0", "tobools 0g",
	"fromu16 65536", "fromu16 -1", "fromu16 007", "fromu32 4294967296", "fromu64 18446744073709551616", "fromu64 1e3", "tou32 0", "tou64 xyz",
	"join ab,,cd", "join AB", "joinsize x ab", "joinsize 2000000 ab", "joinsize 1 a", "joinslice ab", "bsort a", "bsort ab,c", "bunique ,",
	"imax 1,,2", "imax 1,x", "imin -1,18446744073709551615", "iinclude 1,2", "iinclude -1 18446744073709551615", "iunique 00",
	"scontain ab", "sunique A0", "genrandom 70000", "genrandom x", "nosuchop 1", "reset now", "bfindindex ab", "bfindindex ab,c ab",
	"newreader", "bcopy ab cd", "breverse q", "prefix 1", "reverse 1 2", "findindex 1", "bissorted", "bisunique a", "iisunique 1.5", "sisunique ab,c",
}

func (e *env) malformedOp(rng *rand.Rand) string {
	if rng.Intn(3) == 0 {
		return e.anyOp(rng)
	}
	return malformed[rng.Intn(len(malformed))]
}

func (e *env) anyOp(rng *rand.Rand) string {
	switch rng.Intn(8) {
	case 0:
		return e.genericOp(rng)
	case 1:
		return e.bytesOp(rng)
	case 2:
		return e.bitsOp(rng)
	case 3:
		return e.uintOp(rng)
	case 4:
		return e.joinOp(rng)
	case 5:
		return e.sortOp(rng)
	case 6:
		return e.intsOp(rng)
	default:
		return e.stringsOp(rng)
	}
}

type family struct {
	tag    string
	weight int
	gen    func(*env, *rand.Rand) string
}

var families = []family{
	{"generic", 4, (*env).genericOp},
	{"bytes", 2, (*env).bytesOp},
	{"bits", 3, (*env).bitsOp},
	{"uint", 3, (*env).uintOp},
	{"join", 2, (*env).joinOp},
	{"sort", 3, (*env).sortOp},
	{"ints", 2, (*env).intsOp},
	{"strings", 1, (*env).stringsOp},
	{"mixed", 3, (*env).anyOp},
	{"malformed", 1, (*env).malformedOp},
}

// directed: fixed cases naming the boundary behaviours of the task.
func directed() []corr.Case {
	return []corr.Case{
		{Tag: "directed", Ops: []string{"reset",
			"fromu32 0", "fromu32 1", "fromu32 255", "fromu32 256", "fromu32 257", "fromu32 65535", "fromu32 65536", "fromu32 65537", "fromu32 4294967295",
			"fromu16 0", "fromu16 255", "fromu16 256", "fromu16 65535",
			"fromu64 0", "fromu64 4294967295", "fromu64 4294967296", "fromu64 9223372036854775807", "fromu64 9223372036854775808", "fromu64 18446744073709551615",
			"tou32 -", "tou32 nil", "tou32 000000", "tou32 00000001", "tou32 ffffffff", "tou32 0000000100", "tou64 00000000000000", "tou64 8000000000000000", "tou64 ffffffffffffffffff"}},
		{Tag: "directed", Ops: []string{"reset",
			"frombools nil", "frombools []", "frombools 1", "frombools 0", "frombools 10000000", "frombools 100000001", "frombools 000000001", "frombools 1111111", "frombools 0000000000000001",
			"tobools nil", "tobools -", "tobools 80", "tobools 01", "tobools 0180",
			"isbitset nil 0", "isbitset 80 0", "isbitset 80 7", "isbitset 80 8", "isbitset 80 -1", "isbitset 80 -8", "isbitset 0001 15", "isbitset 0001 16", "isbitset ff 9223372036854775807", "isbitset ff -9223372036854775808"}},
		{Tag: "directed", Ops: []string{"reset",
			"insert nil 0 7", "insert [] 0 7", "insert [] 1 7", "insert [] -1 7", "insert 1,2,3 0 7", "insert 1,2,3 3 7", "insert 1,2,3 4 7", "insert 1,2,3 -1 7", "insert 1,2,3 9223372036854775807 7", "insert 1,2,3 -9223372036854775808 7",
			"bsearch nil T", "bsearch [] F", "bsearch 1 T", "bsearch 1 F", "bsearch 1,2,3,4 ge:3", "bsearch 1,2,3,4 ge:0", "bsearch 1,2,3,4 ge:5", "bsearch 1,2,2,2,3 ge:2", "bsearch 1,2,3,4 eq:2", "bsearch 4,3,2,1 ge:3", "bsearch 1,2,3,4,5,6,7,8 in:2;7",
			"equal nil []", "equal [] nil", "equal 1 1,2", "equal 1,2 1,3", "prefix nil 1", "prefix 1,2,3 1,2", "prefix 1,2 1,2,3", "prefix 1,2,3 1,3,3", "reverse nil", "reverse 1", "reverse 1,2", "reverse 1,2,3",
			"find 0,1 eq:0", "find 1,2 eq:0", "findindex 5,5 eq:5", "copy nil", "copy []"}},
		{Tag: "directed", Ops: []string{"reset",
			"bsort nil", "bsort []", "bsort -", "bsort nil,-", "bsort -,nil", "bsort 01,0100,-,01,00ff", "bsort ff,fe,fd", "bissorted 01,0100", "bissorted 0100,01", "bissorted 01,01", "bissorted nil,-",
			"bunique nil", "bunique []", "bunique nil,-", "bunique 02,01,02,01", "bisunique 01,02,01", "bisunique nil,-", "bisunique 01,02",
			"bfindindex nil -", "bfindindex -,nil nil", "bfindindex 01,02,01 01", "bfindindex 01,02 03", "bfindindex 0100,01 01",
			"join nil", "join []", "join nil,-", "join ab,-,cd", "joinsize 0 []", "joinsize -1 []", "joinsize 2 ab,cd", "joinsize 1 ab,cd", "joinsize 3 ab,cd", "joinsize 0 ab", "joinslice nil nil", "joinslice nil,- []", "joinslice 01 02,nil",
			"repeat nil 0", "repeat nil 5", "repeat ab 0", "repeat ab -1", "repeat abcd 4611686018427387904", "repeat abcd 4611686018427387903", "repeat nil 9223372036854775807", "newreader nil", "newreader 0102",
			"beq nil -", "bcmp nil -", "bcmp 01 0100", "bcmp 0100 01", "bcmp ff 00ff", "bcopy nil", "breverse nil", "breverse 010203"}},
		{Tag: "directed", Ops: []string{"reset",
			"imax nil", "imax []", "imin nil", "imax 5", "imin 5", "imax 1,2", "imin 1,2", "imax 3,3,3", "imax 0,18446744073709551615", "imin 0,18446744073709551615", "imax -9223372036854775808,9223372036854775807", "imin -9223372036854775808,9223372036854775807", "imax -1,-2,-3", "imin 9223372036854775808,9223372036854775807",
			"iunique nil", "iunique 3,1,3,1", "iisunique 1,1", "iisunique nil", "iinclude nil 0", "iinclude 1,2 2", "iinclude -1,2 -1",
			"scontain nil -", "scontain -,61 -", "scontain 61 6161", "sunique nil", "sunique 62,61,62,-", "sisunique 61,61", "sisunique []", "genrandom 0", "genrandom 62", "genrandom -1"}},
	}
}

// exhaustive small scopes, as model-compared cases.
func exhaustive(tier string) []corr.Case {
	maxElems, maxU, maxBools, maxInts := 2, 64, 6, 3
	if tier == "thorough" {
		maxElems, maxU, maxBools, maxInts = 3, 1024, 10, 4
	}
	var cases []corr.Case
	var cur []string
	tag := ""
	flush := func() {
		if len(cur) > 0 {
			cases = append(cases, corr.Case{Ops: append([]string{"reset"}, cur...), Tag: tag})
			cur = nil
		}
	}
	emit := func(ops ...string) {
		cur = append(cur, ops...)
		if len(cur) >= 240 {
			flush()
		}
	}
	// all lists of <= maxElems byte strings, each of <= 2 bytes over the alphabet {00, 01, ff}
	tag = "exh-bytes"
	elems := []string{"-"}
	for _, a := range []string{"00", "01", "ff"} {
		elems = append(elems, a)
		for _, b := range []string{"00", "01", "ff"} {
			elems = append(elems, a+b)
		}
	}
	var lists []string
	var rec func(prefix []string, depth int)
	rec = func(prefix []string, depth int) {
		if len(prefix) == 0 {
			lists = append(lists, "[]")
		} else {
			lists = append(lists, strings.Join(prefix, ","))
		}
		if depth == maxElems {
			return
		}
		for _, e := range elems {
			rec(append(append([]string{}, prefix...), e), depth+1)
		}
	}
	rec(nil, 0)
	for _, l := range lists {
		emit("bsort "+l, "bunique "+l, "bissorted "+l, "bisunique "+l, "join "+l, "bfindindex "+l+" 01", "sunique "+l)
	}
	for _, a := range elems {
		for _, b := range elems {
			emit("bcmp "+a+" "+b, "beq "+a+" "+b)
		}
	}
	flush()
	// all unsigned values <= maxU in every width, with the decoders
	tag = "exh-uint"
	for v := 0; v <= maxU; v++ {
		s := strconv.Itoa(v)
		emit("fromu16 "+s, "fromu32 "+s, "fromu64 "+s,
			fmt.Sprintf("tou32 %08x", v), fmt.Sprintf("tou64 %016x", v))
	}
	flush()
	// all bool lists of <= maxBools elements
	tag = "exh-bools"
	emit("frombools []")
	for n := 1; n <= maxBools; n++ {
		for v := 0; v < 1<<uint(n); v++ {
			emit("frombools " + fmt.Sprintf("%0*b", n, v))
		}
	}
	for v := 0; v < 256; v++ {
		emit(fmt.Sprintf("tobools %02x", v))
		for i := 0; i < 8; i++ {
			emit(fmt.Sprintf("isbitset %02x %d", v, i))
		}
	}
	flush()
	// all integer lists of <= maxInts elements over {0,1,2}: every generic function, every index / threshold
	tag = "exh-ints"
	var ilists []string
	var irec func(prefix []string, depth int)
	irec = func(prefix []string, depth int) {
		if len(prefix) == 0 {
			ilists = append(ilists, "[]")
		} else {
			ilists = append(ilists, strings.Join(prefix, ","))
		}
		if depth == maxInts {
			return
		}
		for _, e := range []string{"0", "1", "2"} {
			irec(append(append([]string{}, prefix...), e), depth+1)
		}
	}
	irec(nil, 0)
	for _, l := range ilists {
		n := 0
		if l != "[]" {
			n = strings.Count(l, ",") + 1
		}
		emit("reverse "+l, "copy "+l, "imax "+l, "imin "+l, "iunique "+l, "iisunique "+l)
		for i := -1; i <= n+1; i++ {
			emit(fmt.Sprintf("insert %s %d 9", l, i))
		}
		for t := 0; t <= 3; t++ {
			emit(fmt.Sprintf("bsearch %s ge:%d", l, t), fmt.Sprintf("findindex %s eq:%d", l, t), fmt.Sprintf("find %s eq:%d", l, t), fmt.Sprintf("bsearch %s eq:%d", l, t))
		}
	}
	if tier == "thorough" {
		for _, a := range ilists {
			for _, b := range ilists {
				if len(a) <= 5 && len(b) <= 5 {
					emit("prefix "+a+" "+b, "equal "+a+" "+b)
				}
			}
		}
	}
	flush()
	return cases
}

func (prop) Generate(rng *rand.Rand, tier string) []corr.Case {
	n := 600
	if tier == "thorough" {
		n = 20000
	}
	total := 0
	for _, f := range families {
		total += f.weight
	}
	cases := directed()
	for i := 0; i < n; i++ {
		k := rng.Intn(total)
		var fam family
		for _, f := range families {
			if k < f.weight {
				fam = f
				break
			}
			k -= f.weight
		}
		e := newEnv(rng)
		ops := []string{"reset"}
		for m := 12 + rng.Intn(28); m > 0; m-- {
			ops = append(ops, fam.gen(e, rng))
		}
		cases = append(cases, corr.Case{Ops: ops, Tag: fam.tag})
	}
	return append(cases, exhaustive(tier)...)
}
