package libcoll

import (
	"encoding/binary"
	"fmt"
	"math/rand"

	"github.com/LiskHQ/lisk-engine/pkg/collection"
	cbytes "github.com/LiskHQ/lisk-engine/pkg/collection/bytes"
	"github.com/LiskHQ/lisk-engine/pkg/collection/ints"

	"verifharness/corr"
)

// Extra: model-free sweeps that are too large for the line protocol.
//   - order isomorphism of FromUint16/32/64 over ALL pairs of the boundary values ± 2, and over the
//     complete uint16 range (strictly increasing byte strings, round trip through encoding/binary);
//   - bytes.Sort on lists far beyond the insertion-sort threshold of sort.Sort (pdqsort paths):
//     sorted + permutation; BinarySearch / Insert keeping such a list sorted (the SMT batch pattern);
//   - FromBools / ToBools round trips on long lists; ints.Max / Min on long argument lists.
func (p prop) Extra(rng *rand.Rand, tier string) (res corr.ExtraResult) {
	res = corr.ExtraResult{Exhaustive: true, Notes: map[string]any{}}
	defer func() {
		// the sweeps call the real code outside the per-op recover of RunImpl
		if v := recover(); v != nil {
			res.Fails = append(res.Fails, corr.Fail{Sig: "libcoll-extra-panic", Detail: fmt.Sprint(v), Op: -1})
		}
	}()
	fail := func(sig, format string, a ...any) {
		if len(res.Fails) < 20 {
			res.Fails = append(res.Fails, corr.Fail{Sig: sig, Detail: fmt.Sprintf(format, a...), Op: -1})
		}
	}
	// --- order isomorphism
	var vals []uint64
	seen := map[uint64]bool{}
	for _, b := range boundaries {
		for d := -2; d <= 2; d++ {
			v := b + uint64(d)
			if !seen[v] {
				seen[v] = true
				vals = append(vals, v)
			}
		}
	}
	sign := func(a, b uint64) int {
		switch {
		case a < b:
			return -1
		case a > b:
			return 1
		}
		return 0
	}
	pairs := 0
	for _, a := range vals {
		for _, b := range vals {
			pairs++
			if got := refCompare(cbytes.FromUint64(a), cbytes.FromUint64(b)); got != sign(a, b) {
				fail("libcoll-uint-order", "FromUint64(%d) vs FromUint64(%d): %d", a, b, got)
			}
			a32, b32 := uint32(a), uint32(b)
			if got := refCompare(cbytes.FromUint32(a32), cbytes.FromUint32(b32)); got != sign(uint64(a32), uint64(b32)) {
				fail("libcoll-uint-order", "FromUint32(%d) vs FromUint32(%d): %d", a32, b32, got)
			}
			a16, b16 := uint16(a), uint16(b)
			if got := refCompare(cbytes.FromUint16(a16), cbytes.FromUint16(b16)); got != sign(uint64(a16), uint64(b16)) {
				fail("libcoll-uint-order", "FromUint16(%d) vs FromUint16(%d): %d", a16, b16, got)
			}
		}
	}
	res.Evaluations += 3 * pairs
	prev := cbytes.FromUint16(0)
	for v := 1; v <= 65535; v++ {
		cur := cbytes.FromUint16(uint16(v))
		if refCompare(prev, cur) >= 0 || binary.BigEndian.Uint16(cur) != uint16(v) || len(cur) != 2 {
			fail("libcoll-uint-order", "FromUint16 not strictly increasing / not invertible at %d", v)
			break
		}
		// the same value in the wider encodings: zero-extended on the left
		w := cbytes.FromUint32(uint32(v))
		if w[0] != 0 || w[1] != 0 || w[2] != cur[0] || w[3] != cur[1] || cbytes.ToUint32(w) != uint32(v) {
			fail("libcoll-uint-roundtrip", "FromUint32(%d) = %x", v, w)
			break
		}
		prev = cur
		res.Evaluations++
	}
	// --- sorting large lists, and sorted insertion
	rounds := 40
	if tier == "thorough" {
		rounds = 1200
	}
	maxLen := 0
	for i := 0; i < rounds; i++ {
		e := newEnv(rng)
		n := 13 + rng.Intn(600)
		if i%10 == 0 {
			n = 2000 + rng.Intn(2000)
		}
		if n > maxLen {
			maxLen = n
		}
		l := make([][]byte, n)
		for j := range l {
			_, l[j] = e.genBytes(rng)
		}
		before := counts(l)
		cbytes.Sort(l)
		for j := 1; j < n; j++ {
			if refCompare(l[j-1], l[j]) > 0 {
				fail("libcoll-sort-not-sorted", "Sort of %d elements: descent at %d", n, j)
				break
			}
		}
		if !sameCounts(before, counts(l)) {
			fail("libcoll-sort-not-permutation", "Sort of %d elements lost or invented elements", n)
		}
		if !cbytes.IsSorted(l) {
			fail("libcoll-sort-vs-issorted", "IsSorted(Sort(%d elements)) = false", n)
		}
		// the SMT batch pattern: BinarySearch for the insertion point, Insert there; stays sorted
		for k := 0; k < 20; k++ {
			_, x := e.genBytes(rng)
			calls := 0
			idx := collection.BinarySearch(l, func(v []byte) bool {
				if calls++; calls > 64 {
					panic("BinarySearch does not terminate")
				}
				return refCompare(x, v) < 0
			})
			if idx < 0 || idx > len(l) || (idx < len(l) && refCompare(x, l[idx]) >= 0) || (idx > 0 && refCompare(x, l[idx-1]) < 0) {
				fail("libcoll-bsearch-not-least", "BinarySearch insertion point %d of %x in a sorted list of %d", idx, x, len(l))
				break
			}
			l2 := collection.Insert(l, idx, x)
			if len(l2) != len(l)+1 || !cbytes.IsSorted(l2) {
				fail("libcoll-insert-wrong", "Insert at the BinarySearch point does not keep the list sorted (index %d of %d)", idx, len(l))
				break
			}
			l = l2
		}
		res.Evaluations++
	}
	res.Notes["sort_max_len"] = maxLen
	// --- long bool lists
	for i := 0; i < rounds*5; i++ {
		n := rng.Intn(4096)
		l := make([]bool, n)
		for j := range l {
			l[j] = rng.Intn(3) == 0
		}
		b := cbytes.FromBools(l)
		back := cbytes.ToBools(b)
		pad := (8 - n%8) % 8
		ok := len(b) == (n+7)/8 && len(back) == n+pad
		for j := 0; ok && j < len(back); j++ {
			if j < pad {
				ok = !back[j]
			} else {
				ok = back[j] == l[j-pad]
			}
		}
		if !ok {
			fail("libcoll-bools-roundtrip", "ToBools(FromBools(%d bools)) is not %d false + input", n, pad)
		}
		res.Evaluations++
	}
	// --- Max / Min over long argument lists (sort.Slice beyond the insertion threshold)
	for i := 0; i < rounds*5; i++ {
		n := 1 + rng.Intn(300)
		l := make([]uint32, n)
		mx, mn := uint32(0), ^uint32(0)
		for j := range l {
			l[j] = uint32(genU(rng, 32))
			if l[j] > mx {
				mx = l[j]
			}
			if l[j] < mn {
				mn = l[j]
			}
		}
		orig := append([]uint32{}, l...)
		if ints.Max(l...) != mx || ints.Min(l...) != mn {
			fail("libcoll-imax-wrong", "Max / Min of %d uint32 values", n)
		}
		if !sameT(orig, l) {
			fail("libcoll-arg-mutated", "Max / Min reordered their arguments")
		}
		res.Evaluations++
	}
	return res
}
