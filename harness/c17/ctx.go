package c17

// Pseudo-property C17CTX (run as part of C17 through `also`): the entry points of the request/response layer
// under every state of the CALLER'S CONTEXT.
//
// Clause of C17: "every peer-to-peer request ends - within its timeout and retry budget - with either the
// response the remote handler produced for that very request or an error ... no combination of ... timeouts and
// cancellations can leave the layer blocked or leak a pending entry". The scenarios of C17 proper issue every
// request with a LIVE context and cancel it while an attempt waits in its select. Here every entry point that
// takes a context -
//     send (one sendRequestMessage), request (the retry loop), RequestFrom, Broadcast,
//     and, in Extra, RequestFrom / Broadcast / Publish of a started p2p.Connection
// - is called with a context that
//     never ends | is already cancelled | is already expired | ends during the send (request on the wire, mp.send
//     not yet returned) | ends during the wait | ends between retry j-1 and retry j (j = 1..3)
// against 0, 1 or k connected peers (and against a peer id nobody is connected to). Oracle, model free:
//     the call returns within the watchdog (c17-deadlock), does not panic (c17-panic), returns EITHER a response
//     OR an error (c17-neither-response-nor-error / c17-response-and-error); a returned response is the one a
//     handler of the addressed peer produced for a request of this very call (c17-miscorrelated); Broadcast
//     reports success only if the handler of EVERY connected peer ran for it (c17-broadcast-success-without-
//     delivery); at most budget+1 attempts go out (c17-retry-budget-exceeded); nothing stays registered
//     (c17-leak).
// The outcome class (ok / err-timeout / err-ctx / err-send) is also predicted by the Lean model of the retry
// loop with a cancellation input (Model/ReqRetry.lean, driver Driver/ReqCtx.lean) and diffed. To make the class
// a function of the scenario the remote handlers answer at once only when the context never ends; otherwise
// they are held until the call has returned.

import (
	"context"
	"errors"
	"fmt"
	"math/rand"
	"strconv"
	"strings"
	"sync"
	"time"

	"github.com/libp2p/go-libp2p/core/host"
	"github.com/libp2p/go-libp2p/core/network"
	"github.com/libp2p/go-libp2p/core/peer"
	"github.com/libp2p/go-libp2p/core/protocol"

	"github.com/LiskHQ/lisk-engine/pkg/log"
	"github.com/LiskHQ/lisk-engine/pkg/p2p"

	"verifharness/corr"
)

type ctxProp struct{}

func init() { corr.Register(ctxProp{}) }

func (ctxProp) ID() string                 { return "C17CTX" }
func (ctxProp) Parallel() int              { return 4 }
func (ctxProp) CaseTimeout() time.Duration { return 3 * time.Minute }

const (
	ctxProc       = "c17ctx"
	ctxRetryShort = 80 * time.Millisecond
)

// ---------------------------------------------------------------------------------------------
// a context whose end is triggered by the harness and reports context.DeadlineExceeded

type manualCtx struct {
	parent context.Context
	done   chan struct{}
	once   sync.Once
	mu     sync.Mutex
	err    error
}

func newManualCtx(parent context.Context) *manualCtx {
	return &manualCtx{parent: parent, done: make(chan struct{})}
}
func (c *manualCtx) Deadline() (time.Time, bool) { return c.parent.Deadline() }
func (c *manualCtx) Done() <-chan struct{}       { return c.done }
func (c *manualCtx) Value(k any) any             { return c.parent.Value(k) }
func (c *manualCtx) Err() error {
	c.mu.Lock()
	defer c.mu.Unlock()
	return c.err
}
func (c *manualCtx) end(err error) {
	c.once.Do(func() {
		c.mu.Lock()
		c.err = err
		c.mu.Unlock()
		close(c.done)
	})
}

// ---------------------------------------------------------------------------------------------
// world: requester A, n answering peers

type ctxSeen struct {
	peer int
	id   string
}

type ctxCall struct {
	tag         string
	gated       bool
	gate        chan struct{}
	entered     chan struct{} // a handler received a request of this call
	stallAt     int           // attempt (0-based transmit) after which mp.send is held; -1: never
	transmitted chan string
	stall       chan struct{}
	onRetry     func(i int)

	mu        sync.Mutex
	seen      []ctxSeen
	transmits int
}

type ctxLogger struct {
	nopLogger
	w *ctxWorld
}

func (l *ctxLogger) Debugf(msg string, others ...interface{}) {
	if strings.HasPrefix(msg, "Retrying request message") && len(others) == 2 {
		if i, ok := others[1].(int); ok {
			l.w.mu.Lock()
			c := l.w.cur
			l.w.mu.Unlock()
			if c != nil && c.onRetry != nil {
				c.onRetry(i)
			}
		}
	}
}
func (l *ctxLogger) With(...interface{}) log.Logger { return l }

type ctxWorld struct {
	ctx    context.Context
	cancel context.CancelFunc
	wg     sync.WaitGroup
	pa     *p2p.Peer
	mpa    *p2p.MessageProtocol
	peers  []*p2p.Peer
	ghost  p2p.PeerID

	mu       sync.Mutex
	cur      *ctxCall
	serial   int
	poisoned bool
}

type ctxHost struct {
	host.Host
	w *ctxWorld
}

func (h *ctxHost) NewStream(ctx context.Context, p peer.ID, pids ...protocol.ID) (network.Stream, error) {
	s, err := h.Host.NewStream(ctx, p, pids...)
	if err != nil {
		return s, err
	}
	if len(pids) == 1 && p2p.VerifC17IsReqProtocol(h.w.mpa, string(pids[0])) {
		return &ctxStream{Stream: s, w: h.w}, nil
	}
	return s, nil
}

type ctxStream struct {
	network.Stream
	w    *ctxWorld
	id   string
	data string
}

func (s *ctxStream) Write(b []byte) (int, error) {
	if id, data, ok := p2p.VerifC17DecodeRequest(b); ok {
		s.id, s.data = id, string(data)
	}
	return s.Stream.Write(b)
}

// Close is the deferred call inside mp.send: the request is on the wire, send has not yet returned.
func (s *ctxStream) Close() error {
	err := s.Stream.Close()
	if s.id == "" {
		return err
	}
	s.w.mu.Lock()
	c := s.w.cur
	s.w.mu.Unlock()
	if c == nil || c.tag != s.data {
		return err
	}
	c.mu.Lock()
	n := c.transmits
	c.transmits++
	c.mu.Unlock()
	if n == c.stallAt {
		c.transmitted <- s.id
		select {
		case <-c.stall:
		case <-time.After(10 * time.Second):
		}
	}
	return err
}

func (w *ctxWorld) handler(idx int) p2p.RPCHandler {
	return func(rw p2p.ResponseWriter, req *p2p.Request) {
		w.mu.Lock()
		c := w.cur
		w.mu.Unlock()
		if c == nil || c.tag != string(req.Data) {
			return
		}
		c.mu.Lock()
		c.seen = append(c.seen, ctxSeen{idx, req.ID})
		c.mu.Unlock()
		select {
		case c.entered <- struct{}{}:
		default:
		}
		if c.gated {
			select {
			case <-c.gate:
			case <-w.ctx.Done():
				return
			}
		}
		rw.Write([]byte("R|" + strconv.Itoa(idx) + "|" + req.ID + "|" + string(req.Data)))
	}
}

func newCtxWorld(n int) (*ctxWorld, error) {
	ctx, cancel := context.WithCancel(context.Background())
	w := &ctxWorld{ctx: ctx, cancel: cancel}
	addrs := []string{"/ip4/127.0.0.1/tcp/0"}
	var err error
	lg := &ctxLogger{w: w}
	if w.pa, err = p2p.VerifC17NewPeer(ctx, &w.wg, lg, nil, addrs); err != nil {
		cancel()
		return nil, err
	}
	w.mpa = p2p.VerifC17NewMessageProtocol(chainID, version)
	big := p2p.WithRPCMessageCounter(1<<30, 0)
	if err = w.mpa.RegisterRPCHandler(ctxProc, func(p2p.ResponseWriter, *p2p.Request) {}, big); err != nil {
		w.close()
		return nil, err
	}
	w.pa.VerifC17SetHost(&ctxHost{Host: w.pa.VerifC17Host(), w: w})
	w.mpa.VerifC17Start(ctx, lg, w.pa)
	w.mpa.VerifC17SetTimeout(longTimeout)
	for i := 0; i < n+1; i++ {
		p, err := p2p.VerifC17NewPeer(ctx, &w.wg, nopLogger{}, nil, addrs)
		if err != nil {
			w.close()
			return nil, err
		}
		if i == n {
			// a peer id nobody is connected to
			w.ghost = p.ID()
			_ = p.VerifC17Close()
			break
		}
		w.peers = append(w.peers, p)
		mp := p2p.VerifC17NewMessageProtocol(chainID, version)
		if err = mp.RegisterRPCHandler(ctxProc, w.handler(i), big); err != nil {
			w.close()
			return nil, err
		}
		mp.VerifC17Start(ctx, nopLogger{}, p)
		mp.VerifC17SetTimeout(longTimeout)
		as, err := p.MultiAddress()
		if err != nil || len(as) == 0 {
			w.close()
			return nil, fmt.Errorf("no address: %v", err)
		}
		info, err := p2p.AddrInfoFromMultiAddr(as[0])
		if err != nil {
			w.close()
			return nil, err
		}
		if err = w.pa.Connect(ctx, *info); err != nil {
			w.close()
			return nil, err
		}
	}
	// every peer must be visible as connected before the first Broadcast
	if !waitCond(5*time.Second, func() bool { return len(w.pa.ConnectedPeers()) >= n }) {
		w.close()
		return nil, errors.New("peers did not get connected")
	}
	return w, nil
}

func (w *ctxWorld) close() {
	w.cancel()
	done := make(chan struct{})
	go func() {
		if w.pa != nil {
			_ = w.pa.VerifC17Close()
		}
		for _, p := range w.peers {
			_ = p.VerifC17Close()
		}
		close(done)
	}()
	select {
	case <-done:
	case <-time.After(5 * time.Second):
	}
}

// ---------------------------------------------------------------------------------------------
// one call

type ctxOp struct {
	entry, kind, point, target string
	retry                      int // j for retry<j>, else 0
	peer                       int // target index, -1: x, -2: all
}

func parseCtxOp(f []string, n int) (*ctxOp, bool) {
	if len(f) != 5 || f[0] != "call" {
		return nil, false
	}
	op := &ctxOp{entry: f[1], kind: f[2], point: f[3], target: f[4], peer: -3}
	switch op.entry {
	case "send", "request", "RequestFrom", "Broadcast":
	default:
		return nil, false
	}
	switch op.point {
	case "never", "pre", "send", "wait":
	case "retry1", "retry2", "retry3":
		op.retry = int(op.point[5] - '0')
		if op.entry == "send" {
			return nil, false
		}
	default:
		return nil, false
	}
	if !((op.kind == "live" && op.point == "never") || ((op.kind == "cancel" || op.kind == "expire") && op.point != "never")) {
		return nil, false
	}
	if op.entry == "Broadcast" {
		if op.target != "all" || (n == 0 && op.point != "never" && op.point != "pre") {
			return nil, false
		}
		op.peer = -2
		return op, true
	}
	if op.target == "x" {
		if op.point != "never" && op.point != "pre" {
			return nil, false
		}
		op.peer = -1
		return op, true
	}
	t, err := strconv.Atoi(op.target)
	if err != nil || t < 0 || t >= n || strconv.Itoa(t) != op.target {
		return nil, false
	}
	op.peer = t
	return op, true
}

type ctxResult struct {
	resp     *p2p.Response // request / send
	rf       *p2p.Response // RequestFrom (value)
	err      error
	panicked interface{}
}

func errClass(err error, ctxDone bool) string {
	switch {
	case p2p.VerifC17IsTimeout(err):
		return "err-timeout"
	case errors.Is(err, context.Canceled), errors.Is(err, context.DeadlineExceeded):
		return "err-ctx"
	case ctxDone:
		// libp2p reports a stream that could not be opened under a finished context in its own words
		return "err-ctx"
	default:
		return "err-send"
	}
}

func (w *ctxWorld) call(op *ctxOp, opIdx int) (string, []corr.Fail) {
	var fails []corr.Fail
	fail := func(sig, format string, a ...interface{}) {
		fails = append(fails, corr.Fail{Sig: sig, Detail: fmt.Sprintf("%s %s %s %s on %d peer(s): ", op.entry, op.kind, op.point, op.target, len(w.peers)) + fmt.Sprintf(format, a...), Op: opIdx})
	}
	w.mu.Lock()
	w.serial++
	c := &ctxCall{tag: fmt.Sprintf("c%d-%d", w.serial, nextSerial()), gated: op.point != "never", gate: make(chan struct{}),
		entered: make(chan struct{}, 64), stallAt: -1, transmitted: make(chan string, 1), stall: make(chan struct{})}
	if op.point == "send" {
		c.stallAt = 0
	}
	w.cur = c
	w.mu.Unlock()
	defer close(c.gate)

	// the caller's context
	var cctx context.Context
	var end func()
	base, baseCancel := context.WithCancel(w.ctx)
	defer baseCancel()
	switch {
	case op.kind == "live":
		cctx, end = base, func() {}
	case op.kind == "cancel":
		cc, cancel := context.WithCancel(base)
		cctx, end = cc, cancel
	case op.point == "pre": // expire
		cc, cancel := context.WithDeadline(base, time.Now().Add(-time.Second))
		defer cancel()
		cctx, end = cc, func() {}
	default: // expire at a point chosen by the harness
		mc := newManualCtx(base)
		cctx, end = mc, func() { mc.end(context.DeadlineExceeded) }
	}
	if op.point == "pre" {
		end()
	}
	if op.retry > 0 {
		w.mpa.VerifC17SetTimeout(ctxRetryShort)
		j := op.retry
		c.onRetry = func(i int) {
			if i == j {
				end()
			}
		}
	} else {
		w.mpa.VerifC17SetTimeout(longTimeout)
	}
	target := w.ghost
	if op.peer >= 0 {
		target = w.peers[op.peer].ID()
	}
	data := []byte(c.tag)
	resCh := make(chan ctxResult, 1)
	go func() {
		var r ctxResult
		defer func() {
			if x := recover(); x != nil {
				r.panicked = x
			}
			resCh <- r
		}()
		switch op.entry {
		case "send":
			r.resp, r.err = w.mpa.VerifC17SendRequestMessage(cctx, target, ctxProc, data)
		case "request":
			r.resp, r.err = w.mpa.VerifC17Request(cctx, target, ctxProc, data)
		case "RequestFrom":
			v := w.mpa.RequestFrom(cctx, target, ctxProc, data)
			r.rf = &v
		case "Broadcast":
			r.err = w.mpa.Broadcast(cctx, ctxProc, data)
		}
	}()
	switch op.point {
	case "send":
		select {
		case <-c.transmitted:
			end()
			close(c.stall)
		case r := <-resCh:
			// the call ended before anything was transmitted
			resCh <- r
			close(c.stall)
		case <-time.After(watchdog):
			close(c.stall)
		}
	case "wait":
		select {
		case <-c.entered:
			time.Sleep(3 * time.Millisecond) // the requester is in (or on its way into) its select
			end()
		case r := <-resCh:
			resCh <- r
		case <-time.After(watchdog):
		}
	}
	budget := watchdog + time.Duration(op.retry+1)*(ctxRetryShort+50*time.Millisecond)
	var r ctxResult
	select {
	case r = <-resCh:
	case <-time.After(budget):
		w.poisoned = true
		end()
		fail("c17-deadlock", "the call did not return within %v", budget)
		return "hang", fails
	}
	ctxDone := cctx.Err() != nil
	c.mu.Lock()
	seen := append([]ctxSeen{}, c.seen...)
	transmits := c.transmits
	c.mu.Unlock()
	sawPeer := func(idx int, id string) bool {
		for _, s := range seen {
			if s.peer == idx && (id == "" || s.id == id) {
				return true
			}
		}
		return false
	}
	checkPayload := func(resp *p2p.Response) {
		f := strings.SplitN(string(resp.Data()), "|", 4)
		if resp.Error() != nil || len(f) != 4 || f[0] != "R" || f[3] != c.tag || f[1] != strconv.Itoa(op.peer) || !sawPeer(op.peer, f[2]) || resp.PeerID() != target {
			fail("c17-miscorrelated", "returned payload %q from %v is not a response the handler of the addressed peer produced for a request of this call", resp.Data(), resp.PeerID())
		}
	}
	word := ""
	switch {
	case r.panicked != nil:
		word = "panic"
		fail("c17-panic", "%v", r.panicked)
	case op.entry == "RequestFrom":
		if e := r.rf.Error(); e != nil {
			word = errClass(e, ctxDone)
		} else {
			word = "ok"
			if !sawPeer(op.peer, "") {
				fail("c17-neither-response-nor-error", "RequestFrom returned a Response without error although the remote handler never ran for it (data %q)", r.rf.Data())
			} else {
				checkPayload(r.rf)
			}
		}
	case op.entry == "Broadcast":
		if r.err != nil {
			word = errClass(r.err, ctxDone)
		} else {
			word = "ok"
			for i := range w.peers {
				if !sawPeer(i, "") {
					fail("c17-broadcast-success-without-delivery", "Broadcast returned nil although the handler of connected peer %d never received the request (context done: %v)", i, ctxDone)
					break
				}
			}
		}
	default:
		switch {
		case r.resp == nil && r.err == nil:
			word = "nilnil"
			fail("c17-neither-response-nor-error", "the call returned (nil, nil)")
		case r.resp != nil && r.err != nil:
			word = "both"
			fail("c17-response-and-error", "the call returned a response AND the error %v", r.err)
		case r.err != nil:
			word = errClass(r.err, ctxDone)
		default:
			word = "ok"
			checkPayload(r.resp)
		}
	}
	if op.peer == -1 && strings.HasPrefix(word, "err-") {
		word = "err"
	}
	maxAttempts := p2p.VerifC17MaxRetries + 1
	if op.entry == "send" {
		maxAttempts = 1
	}
	if op.entry == "Broadcast" {
		maxAttempts *= len(w.peers)
	}
	if transmits > maxAttempts {
		fail("c17-retry-budget-exceeded", "%d requests went out, the budget allows %d", transmits, maxAttempts)
	}
	ids, ok := w.mpa.VerifC17PendingIDs(watchdog)
	if !ok {
		w.poisoned = true
		fail("c17-deadlock", "resMu could not be acquired after the call returned")
	} else if len(ids) != 0 {
		fail("c17-leak", "%d entries left in resCh after the call returned: %v", len(ids), ids)
	}
	return word, fails
}

// ---------------------------------------------------------------------------------------------

func (ctxProp) RunImpl(c corr.Case) (out []string, fails []corr.Fail) {
	var w *ctxWorld
	defer func() {
		if w != nil {
			w.close()
		}
	}()
	for i, op := range c.Ops {
		f := strings.Fields(op)
		line := "bad-op"
		func() {
			defer func() {
				if x := recover(); x != nil {
					line = "panic"
					fails = append(fails, corr.Fail{Sig: "c17-panic", Detail: fmt.Sprint(x), Op: i})
				}
			}()
			switch {
			case len(f) == 2 && f[0] == "reset":
				if w != nil {
					w.close()
					w = nil
				}
				n, err := strconv.Atoi(f[1])
				if err != nil || n < 0 || n > 8 || strconv.Itoa(n) != f[1] {
					line = "bad"
					return
				}
				nw, err := newCtxWorld(n)
				if err != nil {
					fails = append(fails, corr.Fail{Sig: "c17-harness", Detail: "cannot build the world: " + err.Error(), Op: i})
					line = "harness-error"
					return
				}
				w = nw
				line = "ok"
			case len(f) == 5 && f[0] == "call":
				if w == nil {
					line = "bad"
					return
				}
				if w.poisoned {
					line = "poisoned"
					return
				}
				cop, ok := parseCtxOp(f, len(w.peers))
				if !ok {
					line = "bad"
					return
				}
				var fs []corr.Fail
				line, fs = w.call(cop, i)
				fails = append(fails, fs...)
			}
		}()
		out = append(out, line)
	}
	return out, fails
}

func (ctxProp) Classify(c corr.Case, out []string) string {
	kinds := map[string]bool{}
	for i, op := range c.Ops {
		f := strings.Fields(op)
		if i >= len(out) || len(f) != 5 || strings.HasPrefix(out[i], "bad") {
			continue
		}
		kinds[f[1]+"-"+f[3]] = true
	}
	if len(kinds) == 0 {
		return ""
	}
	ks := make([]string, 0, len(kinds))
	for k := range kinds {
		ks = append(ks, k)
	}
	sortStrings(ks)
	return strings.Join(ks, "+")
}

func sortStrings(l []string) {
	for i := 1; i < len(l); i++ {
		for j := i; j > 0 && l[j] < l[j-1]; j-- {
			l[j], l[j-1] = l[j-1], l[j]
		}
	}
}

// ctxMatrix lists every legal call for n connected peers.
func ctxMatrix(rng *rand.Rand, n int) []string {
	var ops []string
	points := []string{"pre", "send", "wait", "retry1", "retry2", "retry3"}
	for _, entry := range []string{"send", "request", "RequestFrom", "Broadcast"} {
		targets := []string{}
		switch {
		case entry == "Broadcast":
			targets = []string{"all"}
		case n > 0:
			targets = []string{strconv.Itoa(rng.Intn(n))}
		}
		for _, t := range targets {
			ops = append(ops, fmt.Sprintf("call %s live never %s", entry, t))
			for _, p := range points {
				if (entry == "send" && strings.HasPrefix(p, "retry")) || (n == 0 && p != "pre") {
					continue
				}
				for _, k := range []string{"cancel", "expire"} {
					ops = append(ops, fmt.Sprintf("call %s %s %s %s", entry, k, p, t))
				}
			}
		}
		if entry != "Broadcast" {
			ops = append(ops, fmt.Sprintf("call %s live never x", entry), fmt.Sprintf("call %s cancel pre x", entry), fmt.Sprintf("call %s expire pre x", entry))
		}
	}
	return ops
}

func (ctxProp) Generate(rng *rand.Rand, tier string) []corr.Case {
	var cases []corr.Case
	// the calls with a context that is already done, spelled out once for 1 peer
	cases = append(cases, corr.Case{Tag: "fixed:done-context", Ops: []string{"reset 1",
		"call request live never 0", "call request cancel pre 0", "call request expire pre 0",
		"call RequestFrom cancel pre 0", "call RequestFrom expire pre 0",
		"call Broadcast cancel pre all", "call Broadcast expire pre all", "call send cancel pre 0", "call request live never 0"}})
	sizes := []int{0, 1, 3}
	if tier == "thorough" {
		sizes = []int{0, 1, 1, 2, 3, 3, 5, 8}
	}
	for _, n := range sizes {
		ops := ctxMatrix(rng, n)
		rng.Shuffle(len(ops), func(i, j int) { ops[i], ops[j] = ops[j], ops[i] })
		for len(ops) > 0 {
			k := 5 + rng.Intn(6)
			if k > len(ops) {
				k = len(ops)
			}
			c := corr.Case{Tag: fmt.Sprintf("matrix-%d", n), Ops: append([]string{"reset " + strconv.Itoa(n)}, ops[:k]...)}
			if rng.Intn(4) == 0 {
				// malformed / out-of-protocol ops
				bad := []string{"call request live pre 0", "call send cancel retry1 0", "call Broadcast cancel wait 0", "call request cancel wait 9", "call peek live never 0", "call request live never", "bogus"}
				c.Ops = append(c.Ops, bad[rng.Intn(len(bad))])
			}
			cases = append(cases, c)
			ops = ops[k:]
		}
	}
	return cases
}
