package c17

// Extra of C17CTX: the same clause on the PUBLIC face of the package - a started p2p.Connection (MessageProtocol,
// Peer and GossipSub wired by Connection.Start as the engine does): RequestFrom, Broadcast and Publish with a
// context that is live / already cancelled / already expired, against 0 and 1 connected peers and against a peer
// nobody is connected to. Model free: the call returns within the watchdog, does not panic, and a reported success
// means the remote handler ran (RequestFrom: of the addressed peer; Broadcast: of every connected peer).

import (
	"context"
	"fmt"
	"math/rand"
	"sync"
	"sync/atomic"
	"time"

	"github.com/LiskHQ/lisk-engine/pkg/p2p"

	"verifharness/corr"
)

const ctxConnTopic = "c17ctxtopic"

func ctxConnScenario(nPeers int) (evals int, fails []corr.Fail) {
	fail := func(sig, format string, a ...interface{}) {
		fails = append(fails, corr.Fail{Sig: sig, Detail: fmt.Sprintf("Connection with %d peer(s): ", nPeers) + fmt.Sprintf(format, a...), Op: -1})
	}
	var handled atomic.Int64
	mk := func(answer bool) (*p2p.Connection, error) {
		conn := p2p.NewConnection(nopLogger{}, &p2p.Config{ChainID: chainID, Version: version, Addresses: []string{"/ip4/127.0.0.1/tcp/0"}})
		h := func(rw p2p.ResponseWriter, req *p2p.Request) {}
		if answer {
			h = func(rw p2p.ResponseWriter, req *p2p.Request) {
				handled.Add(1)
				rw.Write(req.Data)
			}
		}
		if err := conn.RegisterRPCHandler(ctxProc, h, p2p.WithRPCMessageCounter(1<<30, 0)); err != nil {
			return nil, err
		}
		if err := conn.RegisterEventHandler(ctxConnTopic, func(*p2p.Event) {}, func(context.Context, *p2p.Message) p2p.ValidationResult { return p2p.ValidationAccept }); err != nil {
			return nil, err
		}
		if err := conn.Start(nil); err != nil {
			return nil, err
		}
		return conn, nil
	}
	a, err := mk(false)
	if err != nil {
		fail("c17-harness", "cannot start the connection: %v", err)
		return 0, fails
	}
	defer func() { _ = a.Stop() }()
	a.VerifC19SetTimeout(300 * time.Millisecond)
	var others []*p2p.Connection
	defer func() {
		for _, o := range others {
			_ = o.Stop()
		}
	}()
	for i := 0; i < nPeers+1; i++ {
		o, err := mk(true)
		if err != nil {
			fail("c17-harness", "cannot start a peer: %v", err)
			return 0, fails
		}
		others = append(others, o)
		if i == nPeers {
			break // the last one stays unconnected: its id is the "unknown peer"
		}
		as, err := o.MultiAddress()
		if err != nil || len(as) == 0 {
			fail("c17-harness", "no address: %v", err)
			return 0, fails
		}
		info, err := p2p.AddrInfoFromMultiAddr(as[0])
		if err != nil {
			fail("c17-harness", "%v", err)
			return 0, fails
		}
		if err := a.Connect(context.Background(), *info); err != nil {
			fail("c17-harness", "connect: %v", err)
			return 0, fails
		}
	}
	waitCond(5*time.Second, func() bool { return len(a.ConnectedPeers()) >= nPeers })
	ghost := others[nPeers].ID()
	type mode struct {
		name string
		mk   func() (context.Context, context.CancelFunc)
	}
	modes := []mode{
		{"live", func() (context.Context, context.CancelFunc) { return context.WithCancel(context.Background()) }},
		{"cancelled", func() (context.Context, context.CancelFunc) {
			c, cancel := context.WithCancel(context.Background())
			cancel()
			return c, cancel
		}},
		{"expired", func() (context.Context, context.CancelFunc) {
			return context.WithDeadline(context.Background(), time.Now().Add(-time.Second))
		}},
	}
	// run f under recover and a watchdog
	guarded := func(what string, f func()) bool {
		done := make(chan interface{}, 1)
		go func() {
			defer func() { done <- recover() }()
			f()
		}()
		select {
		case x := <-done:
			if x != nil {
				fail("c17-panic", "%s: %v", what, x)
				return false
			}
			return true
		case <-time.After(10 * time.Second):
			fail("c17-deadlock", "%s did not return within 10 s", what)
			return false
		}
	}
	var mu sync.Mutex
	for _, m := range modes {
		targets := []p2p.PeerID{ghost}
		if nPeers > 0 {
			targets = append(targets, others[0].ID())
		}
		for ti, target := range targets {
			evals++
			ctx, cancel := m.mk()
			h0 := handled.Load()
			var resp p2p.Response
			what := fmt.Sprintf("RequestFrom(%s context, %s)", m.name, map[int]string{0: "unconnected peer", 1: "connected peer"}[ti])
			if guarded(what, func() {
				r := a.RequestFrom(ctx, target, ctxProc, []byte("x"))
				mu.Lock()
				resp = r
				mu.Unlock()
			}) {
				mu.Lock()
				r := resp
				mu.Unlock()
				if r.Error() == nil && handled.Load() == h0 {
					fail("c17-neither-response-nor-error", "%s returned a Response without error although no remote handler ran", what)
				}
				if m.name == "live" && ti == 1 && (r.Error() != nil || string(r.Data()) != "x") {
					fail("c17-unexpected-error", "%s: error %v data %q", what, r.Error(), r.Data())
				}
			}
			cancel()
		}
		{
			evals++
			ctx, cancel := m.mk()
			h0 := handled.Load()
			var berr error
			what := fmt.Sprintf("Broadcast(%s context)", m.name)
			if guarded(what, func() {
				e := a.Broadcast(ctx, ctxProc, []byte("y"))
				mu.Lock()
				berr = e
				mu.Unlock()
			}) {
				mu.Lock()
				e := berr
				mu.Unlock()
				if e == nil && int(handled.Load()-h0) < len(a.ConnectedPeers()) {
					fail("c17-broadcast-success-without-delivery", "%s returned nil although only %d of %d connected peers received the request", what, handled.Load()-h0, len(a.ConnectedPeers()))
				}
				if m.name == "live" && e != nil {
					fail("c17-unexpected-error", "%s: %v", what, e)
				}
			}
			cancel()
		}
		{
			evals++
			ctx, cancel := m.mk()
			guarded(fmt.Sprintf("Publish(%s context)", m.name), func() { _ = a.Publish(ctx, ctxConnTopic, []byte("z")) })
			guarded(fmt.Sprintf("Publish(%s context, unknown topic)", m.name), func() {
				if err := a.Publish(ctx, "nosuchtopic", []byte("z")); err == nil {
					fail("c17-unexpected-error", "Publish to an unregistered topic reported success")
				}
			})
			cancel()
		}
	}
	if ids, ok := a.VerifC17PendingIDs(2 * time.Second); ok && len(ids) != 0 {
		fail("c17-leak", "%d response channels are still registered", len(ids))
	}
	return evals, fails
}

func (ctxProp) Extra(rng *rand.Rand, tier string) corr.ExtraResult {
	res := corr.ExtraResult{Notes: map[string]any{}}
	sizes := []int{0, 1}
	if tier == "thorough" {
		sizes = []int{0, 1, 3}
	}
	for _, n := range sizes {
		e, fs := ctxConnScenario(n)
		res.Evaluations += e
		res.Fails = append(res.Fails, fs...)
	}
	res.Notes["connection_peer_sets"] = fmt.Sprint(sizes)
	return res
}
