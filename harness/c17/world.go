package c17

import (
	"context"
	"fmt"
	"io"
	"strings"
	"sync"
	"time"

	"github.com/libp2p/go-libp2p/core/host"
	"github.com/libp2p/go-libp2p/core/network"
	"github.com/libp2p/go-libp2p/core/peer"
	"github.com/libp2p/go-libp2p/core/protocol"
	ma "github.com/multiformats/go-multiaddr"

	"github.com/LiskHQ/lisk-engine/pkg/log"
	"github.com/LiskHQ/lisk-engine/pkg/p2p"
)

const (
	procName     = "c17rpc"
	shortTimeout = 80 * time.Millisecond
	longTimeout  = 150 * time.Second // only ever waited out by broken code; long enough that a loaded machine cannot let a parked request expire during stress ops
	watchdog     = 8 * time.Second // a single blocking call of the layer must return within this time
)

var (
	chainID = []byte{1, 7, 0, 0}
	version = "1.7"
)

// ---------------------------------------------------------------------------------------------
// logger of host A: the only observation point for "unknown request ID" drops

type capLogger struct {
	mu       sync.Mutex
	unknown  map[string]int // request id -> number of "unknown request ID" warnings
	received int            // number of "Response message received" debug lines (onResponse decoded a message)
	cond     *sync.Cond
}

func newCapLogger() *capLogger {
	l := &capLogger{unknown: map[string]int{}}
	l.cond = sync.NewCond(&l.mu)
	return l
}

func (l *capLogger) Debug(string, ...interface{}) {}
func (l *capLogger) Info(string, ...interface{})  {}
func (l *capLogger) Error(string, ...interface{}) {}
func (l *capLogger) Debugf(msg string, others ...interface{}) {
	if strings.HasPrefix(msg, "Response message received:") {
		l.mu.Lock()
		l.received++
		l.cond.Broadcast()
		l.mu.Unlock()
	}
}
func (l *capLogger) Infof(string, ...interface{})  {}
func (l *capLogger) Errorf(string, ...interface{}) {}
func (l *capLogger) Warning(string, ...interface{}) {
}
func (l *capLogger) Warningf(msg string, others ...interface{}) {
	if strings.Contains(msg, "unknown request ID") && len(others) == 1 {
		l.mu.Lock()
		l.unknown[fmt.Sprint(others[0])]++
		l.cond.Broadcast()
		l.mu.Unlock()
	}
}
func (l *capLogger) With(...interface{}) log.Logger { return l }

func (l *capLogger) unknownCount(id string) int {
	l.mu.Lock()
	defer l.mu.Unlock()
	return l.unknown[id]
}

func (l *capLogger) receivedCount() int {
	l.mu.Lock()
	defer l.mu.Unlock()
	return l.received
}

// waitCond polls f (cheap) until it holds or d elapsed.
func waitCond(d time.Duration, f func() bool) bool {
	deadline := time.Now().Add(d)
	for {
		if f() {
			return true
		}
		if time.Now().After(deadline) {
			return false
		}
		time.Sleep(200 * time.Microsecond)
	}
}

type nopLogger struct{}

func (nopLogger) Debug(string, ...interface{})     {}
func (nopLogger) Info(string, ...interface{})      {}
func (nopLogger) Error(string, ...interface{})     {}
func (nopLogger) Debugf(string, ...interface{})    {}
func (nopLogger) Infof(string, ...interface{})     {}
func (nopLogger) Errorf(string, ...interface{})    {}
func (nopLogger) Warning(string, ...interface{})   {}
func (nopLogger) Warningf(string, ...interface{})  {}
func (l nopLogger) With(...interface{}) log.Logger { return l }

// ---------------------------------------------------------------------------------------------
// request bookkeeping

type attempt struct {
	id       string
	gate     chan struct{} // closed to let the remote handler answer
	released bool
	recvAt   time.Time // remote handler entered
}

type result struct {
	resp *p2p.Response
	err  error
	at   time.Time
}

const (
	behGated = iota
	behImmediate
	behLatency
)

type reqState struct {
	k        int
	data     []byte
	retry    bool
	short    int // the first `short` attempts use the short timeout
	beh      int
	latency  time.Duration
	attempts []*attempt
	events   chan *attempt // remote handler received an attempt
	result   chan result
	cancel   context.CancelFunc
	finished bool
	res      result
	// schedule point after the request is on the wire (inside mp.send, before it returns)
	stallFirst   bool
	transmitted  chan string   // id of the attempt whose request has been transmitted
	stallRelease chan struct{} // closed by the harness
	jitter       time.Duration // stress: extra delay after the transmit
	launchedAt   time.Time
	cancelAt     time.Time // stress: when the context was cancelled (zero = never)
	transmits    int
}

type respEvent struct {
	id   string
	done time.Time
}

// world = two real libp2p hosts on loopback with one MessageProtocol each. A is the requester
// side (hooked host + capturing logger), B answers.
type world struct {
	ctx    context.Context
	cancel context.CancelFunc
	wg     sync.WaitGroup
	pa, pb *p2p.Peer
	mpa    *p2p.MessageProtocol
	mpb    *p2p.MessageProtocol
	bID    p2p.PeerID
	bAddr  ma.Multiaddr
	lg     *capLogger

	mu       sync.Mutex
	byData   map[string]*reqState
	writes   map[string]time.Time // request id -> time the request was written to the stream
	handled  []respEvent          // completed onResponse calls on A
	reqs     []*reqState          // scenario requests (index = k)
	serial   int
	poisoned bool
}

func payloadFor(id string, data []byte) []byte {
	return []byte("R|" + id + "|" + string(data))
}

// hooked host ----------------------------------------------------------------------------------

type hookHost struct {
	host.Host
	w *world
}

func (h *hookHost) NewStream(ctx context.Context, p peer.ID, pids ...protocol.ID) (network.Stream, error) {
	s, err := h.Host.NewStream(ctx, p, pids...)
	if err != nil {
		return s, err
	}
	if len(pids) == 1 && p2p.VerifC17IsReqProtocol(h.w.mpa, string(pids[0])) {
		return &hookStream{Stream: s, w: h.w}, nil
	}
	return s, nil
}

func (h *hookHost) SetStreamHandler(pid protocol.ID, handler network.StreamHandler) {
	if p2p.VerifC17IsResProtocol(h.w.mpa, string(pid)) {
		h.Host.SetStreamHandler(pid, func(s network.Stream) {
			ts := &teeStream{Stream: s}
			handler(ts)
			h.w.noteHandled(ts.buf)
		})
		return
	}
	h.Host.SetStreamHandler(pid, handler)
}

type teeStream struct {
	network.Stream
	buf []byte
}

func (t *teeStream) Read(p []byte) (int, error) {
	n, err := t.Stream.Read(p)
	t.buf = append(t.buf, p[:n]...)
	return n, err
}

type hookStream struct {
	network.Stream
	w  *world
	rs *reqState
	id string
}

func (s *hookStream) Write(b []byte) (int, error) {
	if id, data, ok := p2p.VerifC17DecodeRequest(b); ok {
		s.id = id
		s.w.mu.Lock()
		s.w.writes[id] = time.Now()
		s.rs = s.w.byData[string(data)]
		s.w.mu.Unlock()
	}
	return s.Stream.Write(b)
}

// Close is the deferred call inside mp.send: after the real Close the request is on the wire and
// send() has not yet returned to sendRequestMessage.
func (s *hookStream) Close() error {
	err := s.Stream.Close()
	if s.rs != nil {
		s.w.afterTransmit(s.rs, s.id)
	}
	return err
}

func (w *world) afterTransmit(rs *reqState, id string) {
	w.mu.Lock()
	n := rs.transmits
	rs.transmits++
	stall := rs.stallFirst && n == 0
	jitter := rs.jitter
	scenario := rs.k >= 0
	short := n < rs.short
	w.mu.Unlock()
	if scenario {
		// the select that follows in this goroutine reads mp.timeout
		if short {
			w.mpa.VerifC17SetTimeout(shortTimeout)
		} else {
			w.mpa.VerifC17SetTimeout(longTimeout)
		}
	}
	if stall {
		rs.transmitted <- id
		select {
		case <-rs.stallRelease:
		case <-time.After(10 * time.Second):
		}
	}
	if jitter > 0 {
		time.Sleep(jitter)
	}
}

func (w *world) noteHandled(buf []byte) {
	id, ok := p2p.VerifC17DecodeResponseID(buf)
	if !ok {
		return
	}
	w.mu.Lock()
	w.handled = append(w.handled, respEvent{id, time.Now()})
	w.mu.Unlock()
}

func (w *world) handledCount(id string) int {
	w.mu.Lock()
	defer w.mu.Unlock()
	n := 0
	for _, e := range w.handled {
		if e.id == id {
			n++
		}
	}
	return n
}

// harness-made stream carrying one response message, as in the repository's tests ---------------

type fakeConn struct {
	network.Conn
	id   peer.ID
	addr ma.Multiaddr
}

func (c fakeConn) RemotePeer() peer.ID           { return c.id }
func (c fakeConn) RemoteMultiaddr() ma.Multiaddr { return c.addr }

type fakeStream struct {
	network.Stream
	data []byte
	off  int
	conn fakeConn
}

func (s *fakeStream) Read(p []byte) (int, error) {
	if s.off >= len(s.data) {
		return 0, io.EOF
	}
	n := copy(p, s.data[s.off:])
	s.off += n
	return n, nil
}
func (s *fakeStream) Close() error       { return nil }
func (s *fakeStream) Reset() error       { return nil }
func (s *fakeStream) Conn() network.Conn { return s.conn }

// callOnResponse hands a well-formed response for request id to A's onResponse (synchronously).
func (w *world) callOnResponse(id string, data []byte) {
	buf := p2p.VerifC17EncodeResponse(id, procName, payloadFor(id, data), "")
	w.mpa.VerifC17OnResponse(&fakeStream{data: buf, conn: fakeConn{id: w.bID, addr: w.bAddr}})
	w.noteHandled(buf)
}

// remote handler on B ---------------------------------------------------------------------------

func (w *world) remoteHandler(rw p2p.ResponseWriter, req *p2p.Request) {
	w.mu.Lock()
	rs := w.byData[string(req.Data)]
	if rs == nil {
		w.mu.Unlock()
		return
	}
	at := &attempt{id: req.ID, gate: make(chan struct{}), recvAt: time.Now()}
	rs.attempts = append(rs.attempts, at)
	beh, lat := rs.beh, rs.latency
	w.mu.Unlock()
	select {
	case rs.events <- at:
	default:
	}
	switch beh {
	case behGated:
		select {
		case <-at.gate:
		case <-w.ctx.Done():
			return
		}
	case behLatency:
		select {
		case <-time.After(lat):
		case <-w.ctx.Done():
			return
		}
	}
	rw.Write(payloadFor(req.ID, req.Data))
}

// construction ----------------------------------------------------------------------------------

func newWorld() (*world, error) {
	ctx, cancel := context.WithCancel(context.Background())
	w := &world{ctx: ctx, cancel: cancel, byData: map[string]*reqState{}, writes: map[string]time.Time{}, lg: newCapLogger()}
	addrs := []string{"/ip4/127.0.0.1/tcp/0"}
	var err error
	if w.pa, err = p2p.VerifC17NewPeer(ctx, &w.wg, w.lg, nil, addrs); err != nil {
		cancel()
		return nil, err
	}
	if w.pb, err = p2p.VerifC17NewPeer(ctx, &w.wg, nopLogger{}, nil, addrs); err != nil {
		cancel()
		return nil, err
	}
	w.mpa = p2p.VerifC17NewMessageProtocol(chainID, version)
	w.mpb = p2p.VerifC17NewMessageProtocol(chainID, version)
	big := p2p.WithRPCMessageCounter(1<<30, 0)
	if err = w.mpa.RegisterRPCHandler(procName, func(p2p.ResponseWriter, *p2p.Request) {}, big); err != nil {
		return nil, err
	}
	if err = w.mpb.RegisterRPCHandler(procName, w.remoteHandler, big); err != nil {
		return nil, err
	}
	w.pa.VerifC17SetHost(&hookHost{Host: w.pa.VerifC17Host(), w: w})
	w.mpa.VerifC17Start(ctx, w.lg, w.pa)
	w.mpb.VerifC17Start(ctx, nopLogger{}, w.pb)
	w.mpa.VerifC17SetTimeout(longTimeout)
	w.mpb.VerifC17SetTimeout(longTimeout)
	bAddrs, err := w.pb.MultiAddress()
	if err != nil || len(bAddrs) == 0 {
		return nil, fmt.Errorf("no address for B: %v", err)
	}
	info, err := p2p.AddrInfoFromMultiAddr(bAddrs[0])
	if err != nil {
		return nil, err
	}
	if err = w.pa.Connect(ctx, *info); err != nil {
		return nil, err
	}
	w.bID = w.pb.ID()
	w.bAddr = info.Addrs[0]
	return w, nil
}

func (w *world) close() {
	w.cancel()
	done := make(chan struct{})
	go func() {
		_ = w.pa.VerifC17Close()
		_ = w.pb.VerifC17Close()
		close(done)
	}()
	select {
	case <-done:
	case <-time.After(5 * time.Second):
	}
}

var serialMu sync.Mutex
var globalSerial int

func nextSerial() int {
	serialMu.Lock()
	defer serialMu.Unlock()
	globalSerial++
	return globalSerial
}

func (w *world) newReq(k int, retry bool, short int, beh int, lat time.Duration) *reqState {
	rs := &reqState{k: k, retry: retry, short: short, beh: beh, latency: lat,
		data:   []byte(fmt.Sprintf("q%d", nextSerial())),
		events: make(chan *attempt, 8), result: make(chan result, 1),
		transmitted: make(chan string, 1), stallRelease: make(chan struct{})}
	w.mu.Lock()
	w.byData[string(rs.data)] = rs
	w.mu.Unlock()
	return rs
}

func (w *world) launch(rs *reqState) {
	ctx, cancel := context.WithCancel(w.ctx)
	rs.cancel = cancel
	rs.launchedAt = time.Now()
	go func() {
		var resp *p2p.Response
		var err error
		if rs.retry {
			resp, err = w.mpa.VerifC17Request(ctx, w.bID, procName, rs.data)
		} else {
			resp, err = w.mpa.VerifC17SendRequestMessage(ctx, w.bID, procName, rs.data)
		}
		rs.result <- result{resp, err, time.Now()}
	}()
}

func (w *world) attemptsOf(rs *reqState) []*attempt {
	w.mu.Lock()
	defer w.mu.Unlock()
	return append([]*attempt{}, rs.attempts...)
}
