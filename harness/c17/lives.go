package c17

// Pseudo-property C17LIVES (run as part of C17 through `also`): the request/response layer over several LIVES of
// the requesting node.
//
// Clause of C17: "a response is never delivered to a different request". The theorems get that from request ids
// that are never repeated. Within one process any id scheme that is unique per process satisfies every scenario;
// what the layer is exposed to in operation is a node that crashes (or is stopped) and starts again with the same
// persistent seed - hence the same peer id - while its remote peers are still working on requests of its previous
// life: their answers are addressed to the same peer id and arrive in the new process. State that decides about
// id uniqueness and restarts with the process (a counter, a coarse clock, a seeded generator) cannot be observed in
// a single process, so every life of the requester is a CHILD PROCESS (re-exec of the harness binary):
//
//   parent: responder B (real libp2p host + MessageProtocol on loopback); its handler holds every request until the
//           scenario lets it answer;
//   child : one life of requester A (same seed in every life), driven over stdin/stdout: `req <tag>`, `abandon <tag>`,
//           `stop`; it reports `done <tag> ...` when a call of mp.request returns, and - through a wrapped stream
//           handler and the logger - `handled <id>` / `unknown <id>` for every response its onResponse processed.
//
// ops: reset | spawn | crash | stop | req | answer <r> | abandon <r>   (requests numbered over all lives).
// Oracle, model free: every request id B ever sees in a case is new (c17-request-id-reused); an answer released by the
// scenario either completes exactly the request it was produced for, with exactly that payload, or is dropped as
// unknown (c17-miscorrelated); the answer to a request that is still pending in the current life is not dropped
// (c17-lost-reply); every child process survives (c17-crash). The outcome words are also predicted by the Lean model
// over lives with ids fresh across lives (Model/ReqRespLives.lean, driver Driver/ReqLives.lean) and diffed.

import (
	"bufio"
	"context"
	"encoding/hex"
	"fmt"
	"io"
	"math/rand"
	"os"
	"os/exec"
	"strconv"
	"strings"
	"sync"
	"time"

	"github.com/libp2p/go-libp2p/core/host"
	"github.com/libp2p/go-libp2p/core/network"
	"github.com/libp2p/go-libp2p/core/protocol"

	"github.com/LiskHQ/lisk-engine/pkg/log"
	"github.com/LiskHQ/lisk-engine/pkg/p2p"

	"verifharness/corr"
)

type livesProp struct{}

func init() {
	if os.Getenv(lifeChildEnv) != "" {
		os.Exit(runLifeChild())
	}
	corr.Register(livesProp{})
}

func (livesProp) ID() string                 { return "C17LIVES" }
func (livesProp) Parallel() int              { return 4 }
func (livesProp) CaseTimeout() time.Duration { return 3 * time.Minute }

const (
	lifeChildEnv = "C17_LIFE_CHILD"
	lifeSeedEnv  = "C17_LIFE_SEED"
	lifeAddrEnv  = "C17_LIFE_BADDR"
	lifeProc     = "c17life"
	lifeSpawnMax = 30 * time.Second
)

// ---------------------------------------------------------------------------------------------
// child side: one life of the requester

type lifeOut struct {
	mu sync.Mutex
	w  *bufio.Writer
}

func (o *lifeOut) line(format string, a ...interface{}) {
	o.mu.Lock()
	fmt.Fprintf(o.w, format+"\n", a...)
	o.w.Flush()
	o.mu.Unlock()
}

type lifeLogger struct {
	nopLogger
	out *lifeOut
}

func (l *lifeLogger) Warningf(msg string, others ...interface{}) {
	if strings.Contains(msg, "unknown request ID") && len(others) == 1 {
		l.out.line("unknown %s", hex.EncodeToString([]byte(fmt.Sprint(others[0]))))
	}
}
func (l *lifeLogger) With(...interface{}) log.Logger { return l }

type lifeHost struct {
	host.Host
	mp  *p2p.MessageProtocol
	out *lifeOut
}

func (h *lifeHost) SetStreamHandler(pid protocol.ID, handler network.StreamHandler) {
	if p2p.VerifC17IsResProtocol(h.mp, string(pid)) {
		h.Host.SetStreamHandler(pid, func(s network.Stream) {
			ts := &teeStream{Stream: s}
			handler(ts)
			if id, ok := p2p.VerifC17DecodeResponseID(ts.buf); ok {
				h.out.line("handled %s", hex.EncodeToString([]byte(id)))
			}
		})
		return
	}
	h.Host.SetStreamHandler(pid, handler)
}

func runLifeChild() int {
	out := &lifeOut{w: bufio.NewWriter(os.Stdout)}
	seed, _ := hex.DecodeString(os.Getenv(lifeSeedEnv))
	ctx, cancel := context.WithCancel(context.Background())
	defer cancel()
	var wg sync.WaitGroup
	lg := &lifeLogger{out: out}
	pa, err := p2p.VerifC17NewPeer(ctx, &wg, lg, seed, []string{"/ip4/127.0.0.1/tcp/0"})
	if err != nil {
		out.line("fatal newPeer %v", err)
		return 3
	}
	mp := p2p.VerifC17NewMessageProtocol(chainID, version)
	if err := mp.RegisterRPCHandler(lifeProc, func(p2p.ResponseWriter, *p2p.Request) {}, p2p.WithRPCMessageCounter(1<<30, 0)); err != nil {
		out.line("fatal register %v", err)
		return 3
	}
	pa.VerifC17SetHost(&lifeHost{Host: pa.VerifC17Host(), mp: mp, out: out})
	mp.VerifC17Start(ctx, lg, pa)
	mp.VerifC17SetTimeout(longTimeout)
	info, err := p2p.AddrInfoFromMultiAddr(os.Getenv(lifeAddrEnv))
	if err != nil {
		out.line("fatal address %v", err)
		return 3
	}
	if err := pa.Connect(ctx, *info); err != nil {
		out.line("fatal connect %v", err)
		return 3
	}
	out.line("ready %s", pa.ID().String())
	var mu sync.Mutex
	cancels := map[string]context.CancelFunc{}
	in := bufio.NewScanner(os.Stdin)
	for in.Scan() {
		f := strings.Fields(in.Text())
		if len(f) == 0 {
			continue
		}
		switch f[0] {
		case "req":
			tag := f[1]
			rctx, rcancel := context.WithCancel(ctx)
			mu.Lock()
			cancels[tag] = rcancel
			mu.Unlock()
			go func() {
				// a panic in the layer ends the process: the parent reports the dead child
				resp, err := mp.VerifC17Request(rctx, info.ID, lifeProc, []byte(tag))
				switch {
				case err == nil && resp != nil && resp.Error() == nil:
					out.line("done %s ok %s", tag, hex.EncodeToString(resp.Data()))
				case err == nil && resp != nil:
					out.line("done %s err remote", tag)
				case err == nil:
					out.line("done %s nilnil", tag)
				case p2p.VerifC17IsTimeout(err):
					out.line("done %s err timeout", tag)
				case rctx.Err() != nil:
					out.line("done %s err cancelled", tag)
				default:
					out.line("done %s err send", tag)
				}
			}()
		case "abandon":
			mu.Lock()
			c := cancels[f[1]]
			mu.Unlock()
			if c != nil {
				c()
			}
		case "stop":
			cancel()
			_ = pa.VerifC17Close()
			out.line("stopped")
			return 0
		}
	}
	return 0
}

// ---------------------------------------------------------------------------------------------
// parent side

type lifeReq struct {
	life     int
	tag      string
	id       string
	gate     chan struct{}
	answered bool
	finished bool // the call returned (answer / abandon) - parent-side knowledge
}

type lifeChild struct {
	cmd   *exec.Cmd
	stdin io.WriteCloser
	exit  chan struct{}

	mu      sync.Mutex
	cond    *sync.Cond
	ready   string
	fatal   string
	handled map[string]int
	unknown map[string]int
	done    map[string]string // tag -> rest of the line
	order   []string          // tags in order of completion
	eof     bool
}

type lifeWorld struct {
	ctx    context.Context
	cancel context.CancelFunc
	wg     sync.WaitGroup
	pb     *p2p.Peer
	mpb    *p2p.MessageProtocol
	bAddr  string
	seed   string
	aID    string

	mu        sync.Mutex
	byTag     map[string]*lifeReq
	arrived   chan *lifeReq
	reqs      []*lifeReq
	child     *lifeChild
	lives     int
	started   bool
	poison    bool
	reuseSeen bool
}

func (w *lifeWorld) handler(rw p2p.ResponseWriter, req *p2p.Request) {
	w.mu.Lock()
	r := w.byTag[string(req.Data)]
	w.mu.Unlock()
	if r == nil {
		return
	}
	r.id = req.ID
	select {
	case w.arrived <- r:
	default:
	}
	select {
	case <-r.gate:
	case <-w.ctx.Done():
		return
	}
	rw.Write([]byte("R|" + req.ID + "|" + string(req.Data)))
}

func newLifeWorld() (*lifeWorld, error) {
	ctx, cancel := context.WithCancel(context.Background())
	w := &lifeWorld{ctx: ctx, cancel: cancel, byTag: map[string]*lifeReq{}, arrived: make(chan *lifeReq, 64)}
	var err error
	if w.pb, err = p2p.VerifC17NewPeer(ctx, &w.wg, nopLogger{}, nil, []string{"/ip4/127.0.0.1/tcp/0"}); err != nil {
		cancel()
		return nil, err
	}
	w.mpb = p2p.VerifC17NewMessageProtocol(chainID, version)
	if err = w.mpb.RegisterRPCHandler(lifeProc, w.handler, p2p.WithRPCMessageCounter(1<<30, 0)); err != nil {
		w.close()
		return nil, err
	}
	w.mpb.VerifC17Start(ctx, nopLogger{}, w.pb)
	w.mpb.VerifC17SetTimeout(longTimeout)
	as, err := w.pb.MultiAddress()
	if err != nil || len(as) == 0 {
		w.close()
		return nil, fmt.Errorf("no address for the responder: %v", err)
	}
	w.bAddr = as[0]
	w.seed = hex.EncodeToString([]byte(fmt.Sprintf("c17-lives-%d-%d-%d", os.Getpid(), nextSerial(), time.Now().UnixNano())))
	return w, nil
}

func (w *lifeWorld) close() {
	w.killChild()
	w.cancel()
	done := make(chan struct{})
	go func() {
		if w.pb != nil {
			_ = w.pb.VerifC17Close()
		}
		close(done)
	}()
	select {
	case <-done:
	case <-time.After(5 * time.Second):
	}
}

func (w *lifeWorld) killChild() {
	c := w.child
	if c == nil {
		return
	}
	w.child = nil
	_ = c.cmd.Process.Kill()
	select {
	case <-c.exit:
	case <-time.After(5 * time.Second):
	}
}

func (c *lifeChild) reader(r io.Reader) {
	sc := bufio.NewScanner(r)
	sc.Buffer(make([]byte, 1<<16), 1<<22)
	for sc.Scan() {
		f := strings.Fields(sc.Text())
		if len(f) < 2 {
			continue
		}
		c.mu.Lock()
		switch f[0] {
		case "ready":
			c.ready = f[1]
		case "fatal":
			c.fatal = strings.Join(f[1:], " ")
		case "handled", "unknown":
			if b, err := hex.DecodeString(f[1]); err == nil {
				if f[0] == "handled" {
					c.handled[string(b)]++
				} else {
					c.unknown[string(b)]++
				}
			}
		case "done":
			c.done[f[1]] = strings.Join(f[2:], " ")
			c.order = append(c.order, f[1])
		}
		c.cond.Broadcast()
		c.mu.Unlock()
	}
	c.mu.Lock()
	c.eof = true
	c.cond.Broadcast()
	c.mu.Unlock()
}

// wait blocks until pred holds (evaluated under c.mu), the child's output ended, or d elapsed.
func (c *lifeChild) wait(d time.Duration, pred func() bool) bool {
	deadline := time.Now().Add(d)
	t := time.AfterFunc(d, func() {
		c.mu.Lock()
		c.cond.Broadcast()
		c.mu.Unlock()
	})
	defer t.Stop()
	c.mu.Lock()
	defer c.mu.Unlock()
	for !pred() {
		if c.eof || time.Now().After(deadline) {
			return pred()
		}
		c.cond.Wait()
	}
	return true
}

func (c *lifeChild) alive() bool {
	select {
	case <-c.exit:
		return false
	default:
		return true
	}
}

func (c *lifeChild) send(line string) {
	_, _ = io.WriteString(c.stdin, line+"\n")
}

// runner ------------------------------------------------------------------------------------------

type lifeRunner struct {
	w     *lifeWorld
	fails []corr.Fail
	op    int
}

func (r *lifeRunner) fail(sig, format string, a ...interface{}) {
	r.fails = append(r.fails, corr.Fail{Sig: sig, Detail: fmt.Sprintf(format, a...), Op: r.op})
}

func (r *lifeRunner) opSpawn() string {
	w := r.w
	cmd := exec.Command(os.Args[0])
	cmd.Env = append(os.Environ(), lifeChildEnv+"=1", lifeSeedEnv+"="+w.seed, lifeAddrEnv+"="+w.bAddr)
	stdin, err := cmd.StdinPipe()
	if err != nil {
		r.fail("c17-harness", "stdin pipe: %v", err)
		return "harness-error"
	}
	stdout, err := cmd.StdoutPipe()
	if err != nil {
		r.fail("c17-harness", "stdout pipe: %v", err)
		return "harness-error"
	}
	var errb strings.Builder
	cmd.Stderr = &limitedWriter{b: &errb, max: 1 << 16}
	if err := cmd.Start(); err != nil {
		r.fail("c17-harness", "cannot start a life of the requester: %v", err)
		return "harness-error"
	}
	c := &lifeChild{cmd: cmd, stdin: stdin, exit: make(chan struct{}), handled: map[string]int{}, unknown: map[string]int{}, done: map[string]string{}}
	c.cond = sync.NewCond(&c.mu)
	go func() {
		c.reader(stdout)
		_ = cmd.Wait()
		close(c.exit)
	}()
	w.child = c
	if !c.wait(lifeSpawnMax, func() bool { return c.ready != "" || c.fatal != "" }) || c.ready == "" {
		r.fail("c17-harness", "life %d of the requester did not come up: %s %s", w.lives, c.fatal, clipS(errb.String(), 600))
		w.poison = true
		return "harness-error"
	}
	if w.aID == "" {
		w.aID = c.ready
	} else if w.aID != c.ready {
		r.fail("c17-harness", "the restarted node has peer id %s, its previous life had %s (same seed)", c.ready, w.aID)
	}
	if w.started {
		w.lives++
	}
	w.started = true
	// B must see the new connection before it can answer anything to A
	waitCond(5*time.Second, func() bool { return len(w.pb.ConnectedPeers()) > 0 })
	return "up"
}

func (r *lifeRunner) opDown(graceful bool) string {
	w := r.w
	c := w.child
	if graceful {
		c.send("stop")
		select {
		case <-c.exit:
		case <-time.After(5 * time.Second):
		}
	}
	w.killChild()
	for _, q := range w.reqs {
		if q.life == w.lives {
			q.finished = true
		}
	}
	// the previous life is gone; wait until the responder has noticed that its connection is dead
	waitCond(5*time.Second, func() bool { return len(w.pb.ConnectedPeers()) == 0 })
	return "down"
}

// childDied reports a life that ended by itself (a panic in the layer ends the process).
func (r *lifeRunner) childDied() bool {
	c := r.w.child
	if c == nil || c.alive() {
		return false
	}
	r.fail("c17-crash", "life %d of the requester ended by itself (exit: %v)", r.w.lives, c.cmd.ProcessState)
	r.w.poison = true
	return true
}

func (r *lifeRunner) opReq() string {
	w := r.w
	q := &lifeReq{life: w.lives, tag: fmt.Sprintf("L%d-%d-%d", w.lives, len(w.reqs), nextSerial()), gate: make(chan struct{})}
	w.mu.Lock()
	w.byTag[q.tag] = q
	w.mu.Unlock()
	w.child.send("req " + q.tag)
	select {
	case got := <-w.arrived:
		if got != q {
			r.fail("c17-harness", "the responder received request %q while %q was expected", got.tag, q.tag)
		}
	case <-time.After(watchdog):
		if r.childDied() {
			return "crashed"
		}
		// maybe the call failed
		if res := w.child.doneOf(q.tag); res != "" {
			w.reqs = append(w.reqs, q)
			q.finished = true
			r.fail("c17-unexpected-error", "request %q of life %d ended with %q before it reached the responder", q.tag, w.lives, res)
			return "failed"
		}
		w.poison = true
		r.fail("c17-deadlock", "request %q of life %d was not transmitted within the watchdog", q.tag, w.lives)
		return "hang"
	}
	for _, o := range w.reqs {
		if o.id == q.id && !w.reuseSeen {
			w.reuseSeen = true // once per case: every later request of the life repeats an id as well
			r.fail("c17-request-id-reused", "request %d (life %d) carries the id %q that request %q of life %d already used: ids are not fresh across restarts of the node",
				len(w.reqs), q.life, q.id, o.tag, o.life)
			break
		}
	}
	w.reqs = append(w.reqs, q)
	return "sent"
}

func (c *lifeChild) doneOf(tag string) string {
	c.mu.Lock()
	defer c.mu.Unlock()
	return c.done[tag]
}

func (r *lifeRunner) opAnswer(k int) string {
	w := r.w
	q := w.reqs[k]
	c := w.child
	c.mu.Lock()
	h0, u0, d0 := c.handled[q.id], c.unknown[q.id], len(c.order)
	c.mu.Unlock()
	q.answered = true
	close(q.gate)
	pending := q.life == w.lives && !q.finished
	if !c.wait(watchdog, func() bool { return c.handled[q.id] > h0 }) {
		if r.childDied() {
			return "crashed"
		}
		r.fail("c17-lost-reply", "the answer to request %d (%q, id %q) never reached onResponse of the requester", k, q.tag, q.id)
		return "lost"
	}
	c.mu.Lock()
	dropped := c.unknown[q.id] > u0
	c.mu.Unlock()
	if dropped {
		if pending {
			r.fail("c17-lost-reply", "the answer to request %d (%q, id %q), pending in the current life, was dropped as unknown request ID", k, q.tag, q.id)
		}
		return "dropped"
	}
	// delivered to a channel: some call returns it
	if !c.wait(watchdog, func() bool { return len(c.order) > d0 }) {
		return "dup"
	}
	c.mu.Lock()
	tag := c.order[d0]
	res := c.done[tag]
	c.mu.Unlock()
	want := "ok " + hex.EncodeToString([]byte("R|"+q.id+"|"+q.tag))
	for _, o := range w.reqs {
		if o.tag == tag {
			o.finished = true
		}
	}
	if tag == q.tag && res == want {
		return "ok"
	}
	got := res
	if f := strings.Fields(res); len(f) == 2 && f[0] == "ok" {
		if b, err := hex.DecodeString(f[1]); err == nil {
			got = "ok " + strconv.Quote(string(b))
		}
	}
	r.fail("c17-miscorrelated", "the answer the responder produced for request %d (%q of life %d, id %q) completed request %q of life %d with %s: a response was delivered to a different request",
		k, q.tag, q.life, q.id, tag, w.lives, got)
	return "misdelivered"
}

func (r *lifeRunner) opAbandon(k int) string {
	w := r.w
	q := w.reqs[k]
	w.child.send("abandon " + q.tag)
	if !w.child.wait(watchdog, func() bool { return w.child.done[q.tag] != "" }) {
		if r.childDied() {
			return "crashed"
		}
		w.poison = true
		r.fail("c17-deadlock", "request %d did not return after its context was cancelled", k)
		return "hang"
	}
	q.finished = true
	if res := w.child.doneOf(q.tag); res != "err cancelled" {
		r.fail("c17-unexpected-error", "cancelled request %d ended with %q", k, res)
		return "other"
	}
	return "cancelled"
}

type limitedWriter struct {
	mu  sync.Mutex
	b   *strings.Builder
	max int
}

func (l *limitedWriter) Write(p []byte) (int, error) {
	l.mu.Lock()
	if l.b.Len() < l.max {
		l.b.Write(p)
	}
	l.mu.Unlock()
	return len(p), nil
}

func clipS(s string, n int) string {
	if len(s) > n {
		return s[len(s)-n:]
	}
	return s
}

func (livesProp) RunImpl(c corr.Case) (out []string, fails []corr.Fail) {
	r := &lifeRunner{}
	defer func() {
		if r.w != nil {
			r.w.close()
		}
		fails = append(fails, r.fails...)
	}()
	for i, op := range c.Ops {
		r.op = i
		out = append(out, r.runOp(op))
	}
	return out, nil
}

func (r *lifeRunner) runOp(op string) (line string) {
	defer func() {
		if x := recover(); x != nil {
			line = "panic"
			r.fail("c17-panic", "%v", x)
		}
	}()
	f := strings.Fields(op)
	if len(f) == 1 && f[0] == "reset" {
		if r.w != nil {
			r.w.close()
		}
		w, err := newLifeWorld()
		if err != nil {
			r.w = nil
			r.fail("c17-harness", "cannot build the responder: %v", err)
			return "harness-error"
		}
		r.w = w
		return "ok"
	}
	if r.w == nil {
		return "harness-error"
	}
	if r.w.poison {
		return "poisoned"
	}
	w := r.w
	up := w.child != nil
	if up && (len(f) >= 1 && (f[0] == "req" || f[0] == "answer" || f[0] == "abandon")) && r.childDied() {
		return "crashed"
	}
	idx := func(s string) (int, bool) {
		k, err := strconv.Atoi(s)
		return k, err == nil && k >= 0 && k < len(w.reqs) && strconv.Itoa(k) == s
	}
	switch {
	case len(f) == 1 && f[0] == "spawn":
		if up {
			return "bad"
		}
		return r.opSpawn()
	case len(f) == 1 && (f[0] == "crash" || f[0] == "stop"):
		if !up {
			return "bad"
		}
		return r.opDown(f[0] == "stop")
	case len(f) == 1 && f[0] == "req":
		if !up || len(w.reqs) >= 24 {
			return "bad"
		}
		return r.opReq()
	case len(f) == 2 && f[0] == "answer":
		k, ok := idx(f[1])
		if !ok || !up || w.reqs[k].answered {
			return "bad"
		}
		return r.opAnswer(k)
	case len(f) == 2 && f[0] == "abandon":
		k, ok := idx(f[1])
		if !ok || !up || w.reqs[k].life != w.lives || w.reqs[k].finished {
			return "bad"
		}
		return r.opAbandon(k)
	}
	return "bad-op"
}

func (livesProp) Classify(c corr.Case, out []string) string {
	lives, stale, own := 0, 0, 0
	for i, op := range c.Ops {
		if i >= len(out) {
			break
		}
		switch {
		case op == "spawn" && out[i] == "up":
			lives++
		case strings.HasPrefix(op, "answer") && out[i] == "dropped":
			stale++
		case strings.HasPrefix(op, "answer") && out[i] == "ok":
			own++
		}
	}
	if lives == 0 {
		return ""
	}
	return fmt.Sprintf("lives%d-stale%d-own%d", lives, min(stale, 3), min(own, 3))
}

// generator ---------------------------------------------------------------------------------------

type gLife struct {
	life               int
	answered, finished bool
}

func livesCase(rng *rand.Rand, nLives int) []string {
	ops := []string{"reset"}
	var reqs []*gLife
	for l := 0; l < nLives; l++ {
		ops = append(ops, "spawn")
		n := 1 + rng.Intn(3)
		steps := n + 1 + rng.Intn(4)
		issued := 0
		for s := 0; s < steps; s++ {
			switch x := rng.Intn(10); {
			case issued < n && (x < 5 || issued == 0):
				ops = append(ops, "req")
				reqs = append(reqs, &gLife{life: l})
				issued++
			case x < 8:
				// an answer: to a request of an earlier life (stale) or of this one
				var cand []int
				for k, q := range reqs {
					if !q.answered {
						cand = append(cand, k)
					}
				}
				if len(cand) == 0 {
					continue
				}
				k := cand[rng.Intn(len(cand))]
				// prefer stale answers while something is pending in this life
				for _, k2 := range cand {
					if reqs[k2].life < l && rng.Intn(2) == 0 {
						k = k2
						break
					}
				}
				ops = append(ops, "answer "+strconv.Itoa(k))
				reqs[k].answered = true
				if reqs[k].life == l {
					reqs[k].finished = true
				}
			case x == 8:
				var cand []int
				for k, q := range reqs {
					if q.life == l && !q.finished {
						cand = append(cand, k)
					}
				}
				if len(cand) == 0 {
					continue
				}
				k := cand[rng.Intn(len(cand))]
				ops = append(ops, "abandon "+strconv.Itoa(k))
				reqs[k].finished = true
			default:
				if rng.Intn(6) == 0 {
					bad := []string{"spawn", "answer 99", "abandon 0", "bogus", "req 1"}
					b := bad[rng.Intn(len(bad))]
					if b == "abandon 0" && len(reqs) > 0 && reqs[0].life == l && !reqs[0].finished {
						reqs[0].finished = true
					}
					ops = append(ops, b)
				}
			}
		}
		if l < nLives-1 {
			if rng.Intn(3) == 0 {
				ops = append(ops, "stop")
			} else {
				ops = append(ops, "crash")
			}
			for _, q := range reqs {
				q.finished = true
			}
		}
	}
	// the remaining answers of earlier lives arrive in the last life
	for k, q := range reqs {
		if !q.answered && rng.Intn(3) > 0 {
			ops = append(ops, "answer "+strconv.Itoa(k))
			q.answered = true
		}
	}
	return ops
}

func (livesProp) Generate(rng *rand.Rand, tier string) []corr.Case {
	cases := []corr.Case{
		// the schedule of Props/C17_Id.lean (C17_idReuseTrace / C17_freshLivesTrace)
		{Tag: "fixed:stale-answer-after-restart", Ops: []string{"reset", "spawn", "req", "crash", "spawn", "req", "answer 0", "answer 1"}},
		{Tag: "fixed:stop-and-restart", Ops: []string{"reset", "spawn", "req", "req", "answer 1", "stop", "spawn", "req", "req", "answer 0", "answer 3", "answer 2"}},
	}
	n := 8
	if tier == "thorough" {
		n = 40
	}
	for i := 0; i < n; i++ {
		lives := 2 + rng.Intn(2)
		if tier == "thorough" && rng.Intn(4) == 0 {
			lives = 4
		}
		cases = append(cases, corr.Case{Tag: "lives", Ops: livesCase(rng, lives)})
	}
	return cases
}
