package c17

// Pseudo-property C17FRESH (run as part of C17 through `also`; model: Model/ReqFresh.lean through Driver/ReqFresh.lean): nothing is carried over from one
// request to another by the per-request objects of the request/response layer.
//
// Clause of C17: "every request ends with either the response the remote handler produced for that very
// request or an error; a response is never delivered to a different request". The response a requester gets
// is a function of what the handler did for THAT request id: the payload it wrote (or none), the error it
// reported (or none), the responder's peer id, a timestamp of the exchange. Whatever an implementation reuses
// between requests (a pooled response writer, a cached message, a read buffer that is handed out again) must
// not show: an error reported for an earlier request must not appear on a later answer, a payload must not be
// a payload of another request, and a response the requester KEEPS must not change when later messages pass
// through the same node.
//
// Three real libp2p hosts on loopback, connected pairwise; every node registers the same three procedures.
// The handler is a pure function of the request payload (serial, mode, sizes are encoded in it), so what the
// handler produced for a request is known without looking at the responder: mode `data` writes a payload,
// `err` reports an error, `both` does both, `none` does nothing, `errdata` reports the error first and writes
// then. Every payload and every error text starts with the serial number of its request, so a foreign piece is
// attributed to the request it was produced for. Histories: error answers BEFORE successful ones and vice
// versa, for the same and for different procedures, requesters and responders, sequentially on one
// connection and concurrently on several, small and large payloads. The responses (and the request payloads
// the handlers saw) are kept until the end of the case and compared again by the final `check` op.
//
// Every request of a case has a serial number (in op order); the output line of an op names, per request, the
// serials its payload and its error were produced for (`d=7 e=-`), read off the RESPONSE; the Lean driver runs the
// same requests on the model with a fresh writer per request, where they are the request's own serial or absent.
//
// The response timeout is far above any transfer time and nothing here depends on a wall-clock deadline: an
// explicit error of the requester's own node (no handler text) is an allowed outcome of the property and is
// only counted.

import (
	"bytes"
	"context"
	"errors"
	"fmt"
	"math/rand"
	"sort"
	"strconv"
	"strings"
	"sync"
	"time"

	"github.com/LiskHQ/lisk-engine/pkg/p2p"

	"verifharness/corr"
)

type freshProp struct{}

func init() { corr.Register(freshProp{}) }

func (freshProp) ID() string { return "C17FRESH" }

const (
	freshHosts    = 3
	freshTimeout  = 60 * time.Second
	freshWatchdog = 45 * time.Second
)

var freshProcs = []string{"c17fresha", "c17freshb", "c17freshc"}

// what the handler does for a request, as encoded in the request payload
type freshSpec struct {
	serial int
	mode   string // data | err | both | errdata | none
	size   int    // payload bytes after the tag
	esize  int    // error characters after the tag
}

func (s freshSpec) encode() []byte {
	return []byte(fmt.Sprintf("%d|%s|%d|%d|", s.serial, s.mode, s.size, s.esize))
}

func parseFreshSpec(b []byte) (freshSpec, bool) {
	f := strings.Split(string(b), "|")
	if len(f) < 4 {
		return freshSpec{}, false
	}
	var s freshSpec
	var e1, e2, e3 error
	s.serial, e1 = strconv.Atoi(f[0])
	s.mode = f[1]
	s.size, e2 = strconv.Atoi(f[2])
	s.esize, e3 = strconv.Atoi(f[3])
	return s, e1 == nil && e2 == nil && e3 == nil
}

func (s freshSpec) writes() bool { return s.mode == "data" || s.mode == "both" || s.mode == "errdata" }
func (s freshSpec) fails() bool  { return s.mode == "err" || s.mode == "both" || s.mode == "errdata" }

// the handler's intended payload / error text of a request (nil / "" when it produces none)
func (s freshSpec) data() []byte {
	if !s.writes() {
		return nil
	}
	return append([]byte(fmt.Sprintf("D%d:", s.serial)), fill(s.size, uint64(s.serial)*7+1)...)
}

func (s freshSpec) errText() string {
	if !s.fails() {
		return ""
	}
	return fmt.Sprintf("E%d:", s.serial) + text(s.esize, uint64(s.serial)*13+5)
}

// tagOwner returns the serial a payload / error text was produced for (-1: no tag)
func tagOwner(b []byte, letter byte) int {
	if len(b) < 3 || b[0] != letter {
		return -1
	}
	i := bytes.IndexByte(b, ':')
	if i < 2 || i > 12 {
		return -1
	}
	n, err := strconv.Atoi(string(b[1:i]))
	if err != nil {
		return -1
	}
	return n
}

type freshSeen struct { // what a handler invocation saw
	spec    freshSpec
	reqID   string
	from    p2p.PeerID
	proc    string
	payload []byte // req.Data as handed to the handler, KEPT
	want    []byte // private copy
	node    int
}

type freshKept struct {
	op     int
	spec   freshSpec
	from   int
	to     int
	proc   string
	res    p2p.Response
	data   []byte // the slice the requester got, KEPT (not copied)
	snap   []byte // private copy taken at delivery
	errTxt string
	ts     int64
	peer   p2p.PeerID
}

type freshWorld struct {
	ctx    context.Context
	cancel context.CancelFunc
	wg     sync.WaitGroup
	peers  []*p2p.Peer
	mps    []*p2p.MessageProtocol

	mu     sync.Mutex
	serial int
	seen   map[int][]*freshSeen // serial -> invocations
	kept   []*freshKept
}

func (w *freshWorld) handlerOf(node int, proc string) p2p.RPCHandler {
	return func(rw p2p.ResponseWriter, req *p2p.Request) {
		spec, ok := parseFreshSpec(req.Data)
		if !ok {
			return
		}
		w.mu.Lock()
		w.seen[spec.serial] = append(w.seen[spec.serial], &freshSeen{spec: spec, reqID: req.ID, from: req.PeerID, proc: proc,
			payload: req.Data, want: append([]byte(nil), req.Data...), node: node})
		w.mu.Unlock()
		switch spec.mode {
		case "data":
			rw.Write(spec.data())
		case "err":
			rw.Error(errors.New(spec.errText()))
		case "both":
			rw.Write(spec.data())
			rw.Error(errors.New(spec.errText()))
		case "errdata":
			rw.Error(errors.New(spec.errText()))
			rw.Write(spec.data())
		}
	}
}

func newFreshWorld() (*freshWorld, error) {
	ctx, cancel := context.WithCancel(context.Background())
	w := &freshWorld{ctx: ctx, cancel: cancel, seen: map[int][]*freshSeen{}}
	addrs := []string{"/ip4/127.0.0.1/tcp/0"}
	big := p2p.WithRPCMessageCounter(1<<30, 0)
	for i := 0; i < freshHosts; i++ {
		p, err := p2p.VerifC17NewPeer(ctx, &w.wg, nopLogger{}, nil, addrs)
		if err != nil {
			w.close()
			return nil, err
		}
		w.peers = append(w.peers, p)
		mp := p2p.VerifC17NewMessageProtocol(chainID, version)
		for _, proc := range freshProcs {
			if err := mp.RegisterRPCHandler(proc, w.handlerOf(i, proc), big); err != nil {
				w.close()
				return nil, err
			}
		}
		mp.VerifC17Start(ctx, nopLogger{}, p)
		mp.VerifC17SetTimeout(freshTimeout)
		w.mps = append(w.mps, mp)
	}
	for i := 0; i < freshHosts; i++ {
		for j := i + 1; j < freshHosts; j++ {
			a, err := w.peers[j].MultiAddress()
			if err != nil || len(a) == 0 {
				w.close()
				return nil, fmt.Errorf("no address for node %d: %v", j, err)
			}
			info, err := p2p.AddrInfoFromMultiAddr(a[0])
			if err != nil {
				w.close()
				return nil, err
			}
			if err = w.peers[i].Connect(ctx, *info); err != nil {
				w.close()
				return nil, err
			}
		}
	}
	return w, nil
}

func (w *freshWorld) close() {
	w.cancel()
	done := make(chan struct{})
	go func() {
		for _, p := range w.peers {
			_ = p.VerifC17Close()
		}
		close(done)
	}()
	select {
	case <-done:
	case <-time.After(5 * time.Second):
	}
}

type freshReq struct {
	from, to int
	proc     string
	mode     string
	size     int
	esize    int
}

func (r freshReq) String() string {
	return fmt.Sprintf("%d:%d:%s:%s:%d:%d", r.from, r.to, r.proc, r.mode, r.size, r.esize)
}

func parseFreshReq(s string) (freshReq, bool) {
	f := strings.Split(s, ":")
	if len(f) != 6 {
		return freshReq{}, false
	}
	var r freshReq
	var e [4]error
	r.from, e[0] = strconv.Atoi(f[0])
	r.to, e[1] = strconv.Atoi(f[1])
	r.proc, r.mode = f[2], f[3]
	r.size, e[2] = strconv.Atoi(f[4])
	r.esize, e[3] = strconv.Atoi(f[5])
	for _, x := range e {
		if x != nil {
			return r, false
		}
	}
	okProc := false
	for _, p := range freshProcs {
		okProc = okProc || p == r.proc
	}
	switch r.mode {
	case "data", "err", "both", "errdata", "none":
	default:
		return r, false
	}
	return r, okProc && r.from >= 0 && r.from < freshHosts && r.to >= 0 && r.to < freshHosts && r.from != r.to && r.size >= 0 && r.esize >= 0
}

func clip(s string) string {
	if len(s) > 60 {
		return s[:60] + "..."
	}
	return s
}

// one performs one request and judges the response at delivery; the outcome word is returned.
func (w *freshWorld) one(r freshReq, idx int, serial int) (string, []corr.Fail) {
	spec := freshSpec{serial: serial, mode: r.mode, size: r.size, esize: r.esize}
	what := fmt.Sprintf("request #%d (node %d -> node %d, procedure %s, handler mode %s, payload %d, error text %d)", spec.serial, r.from, r.to, r.proc, r.mode, r.size, r.esize)
	ctx, cancel := context.WithTimeout(w.ctx, freshWatchdog)
	defer cancel()
	start := time.Now()
	res := w.mps[r.from].RequestFrom(ctx, w.peers[r.to].ID(), r.proc, spec.encode())
	end := time.Now()
	var fails []corr.Fail
	fail := func(sig, format string, a ...interface{}) {
		fails = append(fails, corr.Fail{Sig: sig, Detail: what + ": " + fmt.Sprintf(format, a...), Op: idx})
	}
	w.mu.Lock()
	seen := append([]*freshSeen(nil), w.seen[spec.serial]...)
	w.mu.Unlock()
	gotErr := ""
	if res.Error() != nil {
		gotErr = res.Error().Error()
	}
	gotData := res.Data()
	wantData, wantErr := spec.data(), spec.errText()
	out := ""
	// attribution of foreign pieces
	foreign := false
	if o := tagOwner([]byte(gotErr), 'E'); o >= 0 && o != spec.serial {
		foreign = true
		fail("c17-response-carries-foreign-state", "the response carries the error text %q, which the handler reported for request #%d; the handler of this request %s", clip(gotErr), o, func() string {
			if wantErr == "" {
				return "reported no error"
			}
			return "reported " + strconv.Quote(clip(wantErr))
		}())
	}
	if o := tagOwner(gotData, 'D'); o >= 0 && o != spec.serial {
		foreign = true
		fail("c17-response-carries-foreign-state", "the response carries a payload of %d bytes that the handler wrote for request #%d", len(gotData), o)
	}
	switch {
	case foreign:
		out = "foreign"
	case len(seen) == 0:
		// the handler never ran: only an explicit error is acceptable
		if gotErr == "" {
			fail("c17-response-carries-foreign-state", "the request returned without error (payload %d bytes) although the remote handler never ran", len(gotData))
			out = "phantom"
		} else {
			out = "explicit-error"
		}
	case gotErr != "" && tagOwner([]byte(gotErr), 'E') < 0 && len(gotData) == 0:
		out = "explicit-error" // error of the requester's own node (refusal, cancelled), not a handler text
	default:
		if !bytes.Equal(gotData, wantData) {
			fail("c17-response-carries-foreign-state", "the handler produced a payload of %d bytes, the response has %d bytes (first difference at offset %d)", len(wantData), len(gotData), firstDiffAt(wantData, gotData))
			out = "altered"
		}
		if gotErr != wantErr {
			fail("c17-response-carries-foreign-state", "the handler produced the error %q, the response has the error %q", clip(wantErr), clip(gotErr))
			out = "altered"
		}
		if res.PeerID() != w.peers[r.to].ID() {
			fail("c17-response-carries-foreign-state", "the response names peer %v, the request went to %v", res.PeerID(), w.peers[r.to].ID())
			out = "altered"
		}
		if ts := res.Timestamp(); ts < start.Unix()-2 || ts > end.Unix()+2 {
			fail("c17-response-carries-foreign-state", "the response timestamp %d lies outside the exchange [%d, %d]", ts, start.Unix(), end.Unix())
			out = "altered"
		}
	}
	if out == "" || out == "foreign" {
		// the line compared with the model: which request the payload and the error of the response were produced for
		own := func(b []byte, letter byte) string {
			if o := tagOwner(b, letter); o >= 0 {
				return strconv.Itoa(o)
			}
			if len(b) == 0 {
				return "-"
			}
			return "?"
		}
		out = "d=" + own(gotData, 'D') + " e=" + own([]byte(gotErr), 'E')
	}
	// what the handler saw belongs to this request
	for _, s := range seen {
		if s.node != r.to || s.proc != r.proc || s.from != w.peers[r.from].ID() {
			fail("c17-response-carries-foreign-state", "the request was handled on node %d as procedure %s from peer %v", s.node, s.proc, s.from)
		}
	}
	{
		w.mu.Lock()
		w.kept = append(w.kept, &freshKept{op: idx, spec: spec, from: r.from, to: r.to, proc: r.proc, res: res, data: gotData,
			snap: append([]byte(nil), gotData...), errTxt: gotErr, ts: res.Timestamp(), peer: res.PeerID()})
		w.mu.Unlock()
	}
	return out, fails
}

// check compares everything kept since the reset again.
func (w *freshWorld) check(idx int) (string, []corr.Fail) {
	var fails []corr.Fail
	w.mu.Lock()
	defer w.mu.Unlock()
	for _, k := range w.kept {
		what := fmt.Sprintf("request #%d (node %d -> node %d, procedure %s, handler mode %s, payload %d, error text %d, op %d)", k.spec.serial, k.from, k.to, k.proc, k.spec.mode, k.spec.size, k.spec.esize, k.op)
		e := ""
		if k.res.Error() != nil {
			e = k.res.Error().Error()
		}
		switch {
		case !bytes.Equal(k.data, k.snap) || !bytes.Equal(k.res.Data(), k.snap):
			fails = append(fails, corr.Fail{Sig: "c17-kept-response-changed", Detail: fmt.Sprintf("%s: the payload of the response the requester kept (%d bytes) differs at the end of the case from what was delivered (first difference at offset %d)", what, len(k.snap), firstDiffAt(k.snap, k.data)), Op: idx})
		case e != k.errTxt || k.res.Timestamp() != k.ts || k.res.PeerID() != k.peer:
			fails = append(fails, corr.Fail{Sig: "c17-kept-response-changed", Detail: fmt.Sprintf("%s: error / timestamp / peer of the kept response changed (%q -> %q)", what, clip(k.errTxt), clip(e)), Op: idx})
		}
	}
	nSeen := 0
	var serials []int
	for s := range w.seen {
		serials = append(serials, s)
	}
	sort.Ints(serials)
	for _, sn := range serials {
		for _, s := range w.seen[sn] {
			nSeen++
			if !bytes.Equal(s.payload, s.want) {
				fails = append(fails, corr.Fail{Sig: "c17-kept-request-changed", Detail: fmt.Sprintf("request #%d: the request payload the handler of node %d kept (%d bytes) differs at the end of the case from what it was called with (first difference at offset %d)", sn, s.node, len(s.want), firstDiffAt(s.want, s.payload)), Op: idx})
			}
		}
	}
	out := fmt.Sprintf("kept=%d seen=%d", len(w.kept), nSeen)
	if len(fails) > 0 {
		out += " changed"
	}
	return out, fails
}

func (w *freshWorld) forget() {
	w.mu.Lock()
	w.kept = nil
	w.serial = 0
	w.seen = map[int][]*freshSeen{}
	w.mu.Unlock()
}

// the world is shared by consecutive cases (a long-lived node) and rebuilt after a failure
var (
	freshMu     sync.Mutex
	freshShared *freshWorld
)

func (freshProp) RunImpl(c corr.Case) ([]string, []corr.Fail) {
	freshMu.Lock()
	defer freshMu.Unlock()
	var outs []string
	var fails []corr.Fail
	failedAt := len(fails)
	for i, s := range c.Ops {
		f := strings.Fields(s)
		if len(f) == 0 {
			outs = append(outs, "bad-op")
			continue
		}
		if f[0] == "reset" {
			if freshShared != nil {
				freshShared.forget()
			}
			outs = append(outs, "ok")
			continue
		}
		if freshShared == nil {
			w, err := newFreshWorld()
			if err != nil {
				outs = append(outs, "harness-error")
				fails = append(fails, corr.Fail{Sig: "c17-harness", Detail: err.Error(), Op: i})
				continue
			}
			freshShared = w
		}
		w := freshShared
		switch {
		case f[0] == "seq" && len(f) >= 2:
			var words []string
			for _, rs := range f[1:] {
				w.serial++
				r, ok := parseFreshReq(rs)
				if !ok {
					words = append(words, "bad-op")
					continue
				}
				o, fs := w.one(r, i, w.serial)
				words = append(words, o)
				fails = append(fails, fs...)
			}
			outs = append(outs, strings.Join(words, " "))
		case f[0] == "par" && len(f) >= 2:
			words := make([]string, len(f)-1)
			fss := make([][]corr.Fail, len(f)-1)
			var wg sync.WaitGroup
			for k, rs := range f[1:] {
				w.serial++
				r, ok := parseFreshReq(rs)
				if !ok {
					words[k] = "bad-op"
					continue
				}
				wg.Add(1)
				go func(k int, r freshReq, serial int) {
					defer wg.Done()
					defer func() {
						if p := recover(); p != nil {
							words[k] = "panic"
							fss[k] = []corr.Fail{{Sig: "c17-fresh-panic", Detail: fmt.Sprint(p), Op: i}}
						}
					}()
					words[k], fss[k] = w.one(r, i, serial)
				}(k, r, w.serial)
			}
			wg.Wait()
			for _, fs := range fss {
				fails = append(fails, fs...)
			}
			outs = append(outs, strings.Join(words, " "))
		case f[0] == "check":
			o, fs := w.check(i)
			outs = append(outs, o)
			fails = append(fails, fs...)
		default:
			outs = append(outs, "bad-op")
		}
	}
	if len(fails) > failedAt && freshShared != nil {
		freshShared.close()
		freshShared = nil
	}
	if len(fails) > 6 { // one stale writer shows on many later requests: the first few say it all
		fails = fails[:6]
	}
	return outs, fails
}

func (freshProp) Classify(c corr.Case, out []string) string {
	if c.Tag == "" {
		return ""
	}
	explicit := false
	for _, o := range out {
		if strings.Contains(o, "explicit-error") {
			explicit = true
		}
	}
	if explicit {
		return c.Tag + ":explicit-error"
	}
	return c.Tag
}

// ---------------------------------------------------------------------------------------------
// generation

func (freshProp) Generate(rng *rand.Rand, tier string) []corr.Case {
	var cases []corr.Case
	errModes := []string{"err", "both", "errdata"}
	okModes := []string{"data", "none", "data", "data"}
	smallSize := func() int { return []int{0, 1, 7, 32, 200, 1000, 4000}[rng.Intn(7)] }
	bigSize := func() int { return []int{64 << 10, 300 << 10, 1 << 20, (1 << 20) + 17}[rng.Intn(4)] }
	pair := func() (int, int) {
		a := rng.Intn(freshHosts)
		b := (a + 1 + rng.Intn(freshHosts-1)) % freshHosts
		return a, b
	}
	proc := func() string { return freshProcs[rng.Intn(len(freshProcs))] }
	req := func(from, to int, p, mode string, size int) string {
		return freshReq{from: from, to: to, proc: p, mode: mode, size: size, esize: []int{0, 1, 20, 300}[rng.Intn(4)]}.String()
	}
	add := func(tag string, ops ...string) {
		cases = append(cases, corr.Case{Tag: tag, Ops: append(append([]string{"reset hosts=3"}, ops...), "check")})
	}
	seq := func(l []string) string { return "seq " + strings.Join(l, " ") }
	par := func(l []string) string { return "par " + strings.Join(l, " ") }
	rounds := 6
	if tier == "thorough" {
		rounds = 30
	}
	for r := 0; r < rounds; r++ {
		nErr := 1 + rng.Intn(5)
		nOK := 24 + rng.Intn(24)
		// (1) one connection, one procedure: error answers precede successful ones
		{
			a, b := pair()
			p := proc()
			var l []string
			for i := 0; i < nErr; i++ {
				l = append(l, req(a, b, p, errModes[rng.Intn(3)], smallSize()))
			}
			for i := 0; i < nOK; i++ {
				l = append(l, req(a, b, p, okModes[rng.Intn(4)], smallSize()))
			}
			add("err-then-ok-same-proc", seq(l))
		}
		// (2) different procedures and requesters: node a's error, node c's successes at the same responder
		{
			a, b := pair()
			c := 3 - a - b
			var l []string
			for i := 0; i < nErr; i++ {
				l = append(l, req(a, b, proc(), errModes[rng.Intn(3)], smallSize()))
			}
			for i := 0; i < nOK; i++ {
				from := c
				if rng.Intn(3) == 0 {
					from = a
				}
				l = append(l, req(from, b, proc(), okModes[rng.Intn(4)], smallSize()))
			}
			add("err-then-ok-other-requester", seq(l))
		}
		// (3) successes first, then errors, then successes again; both directions of one connection
		{
			a, b := pair()
			var l []string
			for i := 0; i < 6; i++ {
				l = append(l, req(a, b, proc(), "data", smallSize()))
			}
			for i := 0; i < nErr; i++ {
				l = append(l, req(b, a, proc(), errModes[rng.Intn(3)], smallSize()), req(a, b, proc(), errModes[rng.Intn(3)], smallSize()))
			}
			for i := 0; i < nOK/2; i++ {
				l = append(l, req(a, b, proc(), okModes[rng.Intn(4)], smallSize()), req(b, a, proc(), okModes[rng.Intn(4)], smallSize()))
			}
			add("ok-err-ok-both-directions", seq(l))
		}
		// (4) random mixture of all modes, all pairs
		{
			var l []string
			for i := 0; i < nOK; i++ {
				a, b := pair()
				m := okModes[rng.Intn(4)]
				if rng.Intn(4) == 0 {
					m = errModes[rng.Intn(3)]
				}
				l = append(l, req(a, b, proc(), m, smallSize()))
			}
			add("mixed-sequential", seq(l))
		}
		// (5) concurrent batches on several connections: errors and successes in flight together, then successes
		{
			var ops []string
			for batch := 0; batch < 3; batch++ {
				var l []string
				n := 6 + rng.Intn(10)
				for i := 0; i < n; i++ {
					a, b := pair()
					m := okModes[rng.Intn(4)]
					if batch < 2 && rng.Intn(3) == 0 {
						m = errModes[rng.Intn(3)]
					}
					l = append(l, req(a, b, proc(), m, smallSize()))
				}
				ops = append(ops, par(l))
			}
			add("concurrent-mixed", ops...)
		}
		// (6) large payloads between small ones (kept responses of different sizes), with an error in between
		{
			a, b := pair()
			var l []string
			l = append(l, req(a, b, proc(), "data", bigSize()), req(a, b, proc(), "data", smallSize()), req(a, b, proc(), "both", bigSize()),
				req(a, b, proc(), "data", smallSize()), req(a, b, proc(), "data", bigSize()/2), req(a, b, proc(), "err", 0))
			for i := 0; i < 8; i++ {
				l = append(l, req(a, b, proc(), okModes[rng.Intn(4)], smallSize()))
			}
			add("large-and-small-kept", seq(l))
		}
	}
	return cases
}
