package c17

import (
	"context"
	"fmt"
	"math/rand"
	"sync"
	"time"

	"github.com/LiskHQ/lisk-engine/pkg/p2p"

	"verifharness/corr"
)

// MessageProtocol.Broadcast sends one request to every connected peer. Whatever the peers do - answer, speak
// another protocol (the send fails), or be several such peers at once - the call must end: "no combination of
// concurrent requests ... can leave the request/response layer blocked". broadcastScenario connects a node to
// `ok` peers whose handler answers and `bad` peers that do not run the message protocol at all, calls Broadcast
// and requires it to return; afterwards no response channel may be left registered.
func broadcastScenario(ok, bad int) []corr.Fail {
	var fails []corr.Fail
	ctx, cancel := context.WithCancel(context.Background())
	defer cancel()
	var wg sync.WaitGroup
	addrs := []string{"/ip4/127.0.0.1/tcp/0"}
	pa, err := p2p.VerifC17NewPeer(ctx, &wg, nopLogger{}, nil, addrs)
	if err != nil {
		return []corr.Fail{{Sig: "c17-harness", Detail: err.Error(), Op: -1}}
	}
	defer func() { _ = pa.VerifC17Close() }()
	mpa := p2p.VerifC17NewMessageProtocol(chainID, version)
	big := p2p.WithRPCMessageCounter(1<<30, 0)
	_ = mpa.RegisterRPCHandler(procName, func(p2p.ResponseWriter, *p2p.Request) {}, big)
	mpa.VerifC17Start(ctx, nopLogger{}, pa)
	mpa.VerifC17SetTimeout(300 * time.Millisecond)
	var others []*p2p.Peer
	defer func() {
		for _, p := range others {
			_ = p.VerifC17Close()
		}
	}()
	for i := 0; i < ok+bad; i++ {
		p, err := p2p.VerifC17NewPeer(ctx, &wg, nopLogger{}, nil, addrs)
		if err != nil {
			return []corr.Fail{{Sig: "c17-harness", Detail: err.Error(), Op: -1}}
		}
		others = append(others, p)
		if i < ok {
			mp := p2p.VerifC17NewMessageProtocol(chainID, version)
			_ = mp.RegisterRPCHandler(procName, func(rw p2p.ResponseWriter, req *p2p.Request) { rw.Write(req.Data) }, big)
			mp.VerifC17Start(ctx, nopLogger{}, p)
		}
		as, err := p.MultiAddress()
		if err != nil || len(as) == 0 {
			return []corr.Fail{{Sig: "c17-harness", Detail: fmt.Sprint("no address: ", err), Op: -1}}
		}
		info, err := p2p.AddrInfoFromMultiAddr(as[0])
		if err != nil {
			return []corr.Fail{{Sig: "c17-harness", Detail: err.Error(), Op: -1}}
		}
		if err := pa.Connect(ctx, *info); err != nil {
			return []corr.Fail{{Sig: "c17-harness", Detail: err.Error(), Op: -1}}
		}
	}
	done := make(chan error, 1)
	go func() { done <- mpa.Broadcast(ctx, procName, []byte("hello")) }()
	select {
	case err := <-done:
		if bad == 0 && err != nil {
			fails = append(fails, corr.Fail{Sig: "c17-broadcast-error", Detail: fmt.Sprintf("Broadcast to %d answering peers failed: %v", ok, err), Op: -1})
		}
		if bad > 0 && err == nil {
			fails = append(fails, corr.Fail{Sig: "c17-broadcast-error", Detail: fmt.Sprintf("Broadcast to %d answering and %d non-answering peers reported success", ok, bad), Op: -1})
		}
	case <-time.After(20 * time.Second):
		fails = append(fails, corr.Fail{Sig: "c17-hang-broadcast", Detail: fmt.Sprintf("Broadcast to %d answering and %d failing peers did not return within 20 s (every single request ends within 4 x 300 ms)", ok, bad), Op: -1})
		return fails
	}
	if ids, got := mpa.VerifC17PendingIDs(2 * time.Second); got && len(ids) != 0 {
		fails = append(fails, corr.Fail{Sig: "c17-leak", Detail: fmt.Sprintf("after Broadcast %d response channels are still registered", len(ids)), Op: -1})
	}
	return fails
}

// Extra: Broadcast over small peer sets with 0..3 failing peers.
func (prop) Extra(rng *rand.Rand, tier string) corr.ExtraResult {
	res := corr.ExtraResult{Notes: map[string]any{}}
	combos := [][2]int{{1, 0}, {0, 1}, {1, 1}, {0, 2}, {2, 2}}
	if tier == "thorough" {
		combos = append(combos, [2]int{3, 0}, [2]int{0, 3}, [2]int{2, 3}, [2]int{4, 1})
	}
	for _, c := range combos {
		res.Evaluations++
		res.Fails = append(res.Fails, broadcastScenario(c[0], c[1])...)
	}
	res.Notes["broadcast_peer_sets"] = fmt.Sprint(combos)
	return res
}
