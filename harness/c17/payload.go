package c17

// Pseudo-property C17SIZE (model free, run as part of C17 through `also`): payload SIZES through the
// request/response layer.
//
// Clause of C17: "every request ends with either the response the remote handler produced for that very
// request or an error; a response is not lost when it arrives before the deadline". Whatever the size of the
// request payload, of the response payload or of the error string a handler reports: either the caller gets an
// explicit error, or the remote handler sees exactly the request payload and the caller gets exactly what the
// handler wrote. A message the sending side accepted must not be dropped, cut or altered on the receiving
// side, the caller must not be left waiting for its timeout although the response reached its node, and the
// honest peer must not be penalised, banned or disconnected as a side effect.
//
// Sizes: 0, 1, 2 and L-1, L, L+1 for every boundary L, once measured on the PAYLOAD and once on the ENCODED
// message (the payload size for which the wire form has exactly L-1, L, L+1 bytes), in both directions, plus
// error strings. Boundaries L: every power of two up to 8 MiB (16 MiB thorough) and every integer constant /
// constant expression between 256 and 32 MiB found in the non-test sources of pkg/p2p the binary was compiled
// from (read sizes, buffer sizes, caps), so a cap that is not a power of two gets its own boundary cases.
//
// Two real libp2p hosts on loopback, MessageProtocol.RequestFrom on one side, a registered RPC handler on the
// other. The response timeout is set far above any transfer time, so every response is "in time"; the
// stream handlers of both nodes are wrapped (SetStreamHandler of the host) only to observe that onRequest /
// onResponse have returned: a request whose onRequest returned without the handler having run, or a
// response whose onResponse returned without the caller being released, is lost - no wall-clock timeout
// decides that (robust under CPU load, and a failing case costs about a second instead of the retry budget).

import (
	"context"
	"errors"
	"fmt"
	"go/ast"
	"go/parser"
	"go/token"
	"math/rand"
	"os"
	"path/filepath"
	"sort"
	"strconv"
	"strings"
	"sync"
	"time"

	"github.com/libp2p/go-libp2p/core/host"
	"github.com/libp2p/go-libp2p/core/network"
	"github.com/libp2p/go-libp2p/core/protocol"

	"github.com/LiskHQ/lisk-engine/pkg/p2p"

	"verifharness/corr"
)

type sizeProp struct{}

func init() { corr.Register(sizeProp{}) }

func (sizeProp) ID() string    { return "C17SIZE" }
func (sizeProp) NoModel() bool { return true }

const (
	sizeProc      = "c17size"
	sizeTimeout   = 60 * time.Second // response timeout of both nodes: every response of a scenario is in time
	sizeWatchdog  = 40 * time.Second // a single request must be over by then
	sizeGrace     = 1500 * time.Millisecond
	sizeSmallEdge = 64 << 10
)

// ---------------------------------------------------------------------------------------------
// boundaries from the package sources

// sourceLimits evaluates every integer literal and constant integer expression (over literals and the
// package's own untyped constants) in the non-test, non-hook sources of the directory and returns the
// values in [lo, hi].
func sourceLimits(dir string, lo, hi int64) []int64 {
	fset := token.NewFileSet()
	files, _ := filepath.Glob(filepath.Join(dir, "*.go"))
	var parsed []*ast.File
	consts := map[string]ast.Expr{}
	for _, f := range files {
		if strings.HasSuffix(f, "_test.go") || strings.HasSuffix(f, "_verif.go") {
			continue
		}
		af, err := parser.ParseFile(fset, f, nil, parser.SkipObjectResolution)
		if err != nil {
			continue
		}
		parsed = append(parsed, af)
		for _, d := range af.Decls {
			gd, ok := d.(*ast.GenDecl)
			if !ok || gd.Tok != token.CONST {
				continue
			}
			for _, sp := range gd.Specs {
				vs := sp.(*ast.ValueSpec)
				for i, n := range vs.Names {
					if i < len(vs.Values) {
						consts[n.Name] = vs.Values[i]
					}
				}
			}
		}
	}
	var eval func(e ast.Expr, depth int) (int64, bool)
	eval = func(e ast.Expr, depth int) (int64, bool) {
		if depth > 8 {
			return 0, false
		}
		switch x := e.(type) {
		case *ast.BasicLit:
			if x.Kind != token.INT {
				return 0, false
			}
			v, err := strconv.ParseInt(strings.ReplaceAll(x.Value, "_", ""), 0, 64)
			return v, err == nil
		case *ast.ParenExpr:
			return eval(x.X, depth+1)
		case *ast.Ident:
			if c, ok := consts[x.Name]; ok {
				return eval(c, depth+1)
			}
			return 0, false
		case *ast.CallExpr: // conversions such as int64(4 << 20)
			if id, ok := x.Fun.(*ast.Ident); ok && len(x.Args) == 1 {
				switch id.Name {
				case "int", "int32", "int64", "uint", "uint32", "uint64":
					return eval(x.Args[0], depth+1)
				}
			}
			return 0, false
		case *ast.BinaryExpr:
			a, ok1 := eval(x.X, depth+1)
			b, ok2 := eval(x.Y, depth+1)
			if !ok1 || !ok2 {
				return 0, false
			}
			switch x.Op {
			case token.ADD:
				return a + b, true
			case token.SUB:
				return a - b, true
			case token.MUL:
				if a != 0 && (b > (1<<40)/absI(a) || b < -(1<<40)/absI(a)) {
					return 0, false
				}
				return a * b, true
			case token.QUO:
				if b == 0 {
					return 0, false
				}
				return a / b, true
			case token.SHL:
				if b < 0 || b > 40 || absI(a) > 1<<20 {
					return 0, false
				}
				return a << uint(b), true
			case token.SHR:
				if b < 0 || b > 62 {
					return 0, false
				}
				return a >> uint(b), true
			}
		}
		return 0, false
	}
	seen := map[int64]bool{}
	for _, af := range parsed {
		ast.Inspect(af, func(n ast.Node) bool {
			if e, ok := n.(ast.Expr); ok {
				if v, ok := eval(e, 0); ok && v >= lo && v <= hi {
					seen[v] = true
				}
			}
			return true
		})
	}
	var res []int64
	for v := range seen {
		res = append(res, v)
	}
	sort.Slice(res, func(i, j int) bool { return res[i] < res[j] })
	return res
}

func absI(a int64) int64 {
	if a < 0 {
		return -a
	}
	return a
}

// ---------------------------------------------------------------------------------------------
// payloads

// fill returns n bytes determined by (n, seed) (xorshift; cheap for several MiB).
func fill(n int, seed uint64) []byte {
	b := make([]byte, n)
	x := seed*0x9E3779B97F4A7C15 + uint64(n) + 1
	i := 0
	for ; i+8 <= n; i += 8 {
		x ^= x << 13
		x ^= x >> 7
		x ^= x << 17
		b[i], b[i+1], b[i+2], b[i+3] = byte(x), byte(x>>8), byte(x>>16), byte(x>>24)
		b[i+4], b[i+5], b[i+6], b[i+7] = byte(x>>32), byte(x>>40), byte(x>>48), byte(x>>56)
	}
	for ; i < n; i++ {
		x ^= x << 13
		x ^= x >> 7
		x ^= x << 17
		b[i] = byte(x)
	}
	return b
}

// text is fill restricted to printable ASCII (error strings).
func text(n int, seed uint64) string {
	b := fill(n, seed)
	for i := range b {
		b[i] = 'a' + b[i]%26
	}
	return string(b)
}

func firstDiffAt(a, b []byte) int {
	n := len(a)
	if len(b) < n {
		n = len(b)
	}
	for i := 0; i < n; i++ {
		if a[i] != b[i] {
			return i
		}
	}
	if len(a) != len(b) {
		return n
	}
	return -1
}

// ---------------------------------------------------------------------------------------------
// world

type obsHost struct {
	host.Host
	done func(pid protocol.ID, read int)
}

type countStream struct {
	network.Stream
	n int
}

func (c *countStream) Read(p []byte) (int, error) {
	n, err := c.Stream.Read(p)
	c.n += n
	return n, err
}

func (h *obsHost) SetStreamHandler(pid protocol.ID, handler network.StreamHandler) {
	h.Host.SetStreamHandler(pid, func(s network.Stream) {
		cs := &countStream{Stream: s}
		handler(cs)
		h.done(pid, cs.n)
	})
}

type sizeOp struct {
	kind    string // req | resp | rerr | mix
	reqN    int
	respN   int
	errN    int // -1: the handler reports no error
	seed    uint64
	reqData []byte
	resData []byte
	resErr  string
}

type sizeWorld struct {
	ctx    context.Context
	cancel context.CancelFunc
	wg     sync.WaitGroup
	pa, pb *p2p.Peer
	mpa    *p2p.MessageProtocol
	mpb    *p2p.MessageProtocol

	mu        sync.Mutex
	cur       *sizeOp
	handlerIn int    // RPC handler invocations on B
	gotReq    []byte // request payload seen by the last invocation
	reqDone   int    // completed onRequest calls on B
	reqRead   int    // bytes the last one read from its stream
	resDone   int    // completed onResponse calls on A
	resRead   int
}

func (w *sizeWorld) handler(rw p2p.ResponseWriter, req *p2p.Request) {
	w.mu.Lock()
	w.handlerIn++
	w.gotReq = req.Data
	op := w.cur
	w.mu.Unlock()
	if op == nil {
		return
	}
	if op.respN >= 0 {
		rw.Write(op.resData)
	}
	if op.errN >= 0 {
		rw.Error(errors.New(op.resErr))
	}
}

func newSizeWorld() (*sizeWorld, error) {
	ctx, cancel := context.WithCancel(context.Background())
	w := &sizeWorld{ctx: ctx, cancel: cancel}
	addrs := []string{"/ip4/127.0.0.1/tcp/0"}
	var err error
	if w.pa, err = p2p.VerifC17NewPeer(ctx, &w.wg, nopLogger{}, nil, addrs); err != nil {
		cancel()
		return nil, err
	}
	if w.pb, err = p2p.VerifC17NewPeer(ctx, &w.wg, nopLogger{}, nil, addrs); err != nil {
		cancel()
		return nil, err
	}
	w.mpa = p2p.VerifC17NewMessageProtocol(chainID, version)
	w.mpb = p2p.VerifC17NewMessageProtocol(chainID, version)
	big := p2p.WithRPCMessageCounter(1<<30, 0)
	if err = w.mpa.RegisterRPCHandler(sizeProc, func(p2p.ResponseWriter, *p2p.Request) {}, big); err != nil {
		return nil, err
	}
	if err = w.mpb.RegisterRPCHandler(sizeProc, w.handler, big); err != nil {
		return nil, err
	}
	w.pa.VerifC17SetHost(&obsHost{Host: w.pa.VerifC17Host(), done: func(pid protocol.ID, n int) {
		if p2p.VerifC17IsResProtocol(w.mpa, string(pid)) {
			w.mu.Lock()
			w.resDone++
			w.resRead = n
			w.mu.Unlock()
		}
	}})
	w.pb.VerifC17SetHost(&obsHost{Host: w.pb.VerifC17Host(), done: func(pid protocol.ID, n int) {
		if p2p.VerifC17IsReqProtocol(w.mpb, string(pid)) {
			w.mu.Lock()
			w.reqDone++
			w.reqRead = n
			w.mu.Unlock()
		}
	}})
	w.mpa.VerifC17Start(ctx, nopLogger{}, w.pa)
	w.mpb.VerifC17Start(ctx, nopLogger{}, w.pb)
	w.mpa.VerifC17SetTimeout(sizeTimeout)
	w.mpb.VerifC17SetTimeout(sizeTimeout)
	bAddrs, err := w.pb.MultiAddress()
	if err != nil || len(bAddrs) == 0 {
		return nil, fmt.Errorf("no address for B: %v", err)
	}
	info, err := p2p.AddrInfoFromMultiAddr(bAddrs[0])
	if err != nil {
		return nil, err
	}
	if err = w.pa.Connect(ctx, *info); err != nil {
		return nil, err
	}
	return w, nil
}

func (w *sizeWorld) close() {
	w.cancel()
	done := make(chan struct{})
	go func() {
		_ = w.pa.VerifC17Close()
		_ = w.pb.VerifC17Close()
		close(done)
	}()
	select {
	case <-done:
	case <-time.After(5 * time.Second):
	}
}

func hasPeer(l p2p.PeerIDs, id p2p.PeerID) bool {
	for _, x := range l {
		if x == id {
			return true
		}
	}
	return false
}

// run executes one op; out is the outcome word, fails the violations.
func (w *sizeWorld) run(op *sizeOp, idx int) (out string, fails []corr.Fail) {
	describe := fmt.Sprintf("%s: request payload %d bytes, handler writes %s", op.kind, op.reqN, func() string {
		s := "nothing"
		if op.respN >= 0 {
			s = fmt.Sprintf("%d bytes", op.respN)
		}
		if op.errN >= 0 {
			s += fmt.Sprintf(" and an error of %d characters", op.errN)
		}
		return s
	}())
	w.mu.Lock()
	w.cur = op
	w.gotReq = nil
	h0, q0, r0 := w.handlerIn, w.reqDone, w.resDone
	w.mu.Unlock()
	ctx, cancel := context.WithCancel(w.ctx)
	defer cancel()
	type res struct {
		r  p2p.Response
		at time.Time
	}
	ch := make(chan res, 1)
	start := time.Now()
	go func() {
		r := w.mpa.RequestFrom(ctx, w.pb.ID(), sizeProc, op.reqData)
		ch <- res{r, time.Now()}
	}()
	var got *res
	lost := ""
	var reqDoneAt, resDoneAt time.Time
	tick := time.NewTicker(2 * time.Millisecond)
	defer tick.Stop()
wait:
	for {
		select {
		case r := <-ch:
			got = &r
			break wait
		case <-tick.C:
		}
		now := time.Now()
		w.mu.Lock()
		hIn, qDone, rDone, qRead, rRead := w.handlerIn-h0, w.reqDone-q0, w.resDone-r0, w.reqRead, w.resRead
		w.mu.Unlock()
		if qDone > 0 && reqDoneAt.IsZero() {
			reqDoneAt = now
		}
		if rDone > 0 && resDoneAt.IsZero() {
			resDoneAt = now
		}
		switch {
		case qDone > 0 && hIn == 0 && now.Sub(reqDoneAt) > sizeGrace:
			lost = fmt.Sprintf("the responder's onRequest returned after reading %d bytes without running the handler and without any answer; the requester is left waiting for its timeout", qRead)
		case rDone > 0 && now.Sub(resDoneAt) > sizeGrace:
			lost = fmt.Sprintf("the handler ran and its response reached the requester's node %v after the request started (onResponse returned after reading %d bytes), well before the deadline (%v), but the waiting request was not released", resDoneAt.Sub(start).Round(time.Millisecond), rRead, sizeTimeout)
		case now.Sub(start) > sizeWatchdog:
			lost = fmt.Sprintf("no result within %v (handler invocations %d, onRequest returns %d, onResponse returns %d)", sizeWatchdog, hIn, qDone, rDone)
		}
		if lost != "" {
			break wait
		}
	}
	if lost != "" {
		cancel()
		select {
		case <-ch:
		case <-time.After(5 * time.Second):
		}
		fails = append(fails, corr.Fail{Sig: "c17-payload-lost", Detail: describe + ": " + lost, Op: idx})
		out = "lost"
	} else {
		w.mu.Lock()
		hIn, gotReq := w.handlerIn-h0, w.gotReq
		w.mu.Unlock()
		rerr := got.r.Error()
		switch {
		case hIn == 0 || (rerr != nil && (op.errN < 0 || rerr.Error() != op.resErr)):
			// an explicit error instead of the delivery (sender-side refusal, error response of the remote node)
			if rerr == nil {
				fails = append(fails, corr.Fail{Sig: "c17-payload-corrupted", Detail: describe + ": the request returned without error although the remote handler never ran", Op: idx})
				out = "phantom"
			} else {
				e := rerr.Error()
				if len(e) > 80 {
					e = e[:80] + "..."
				}
				out = "explicit-error"
				if hIn > 0 && op.errN >= 0 {
					// the handler's own error string came back altered
					fails = append(fails, corr.Fail{Sig: "c17-payload-corrupted", Detail: fmt.Sprintf("%s: the error string reported by the handler arrived altered (%d characters, %q)", describe, len(rerr.Error()), e), Op: idx})
					out = "corrupted"
				}
			}
		default:
			if hIn > 1 {
				out = "retried"
			}
			if d := firstDiffAt(op.reqData, gotReq); d >= 0 {
				fails = append(fails, corr.Fail{Sig: "c17-payload-corrupted", Detail: fmt.Sprintf("%s: the remote handler saw a request payload of %d bytes (first difference at offset %d)", describe, len(gotReq), d), Op: idx})
				out = "corrupted"
			}
			want := op.resData
			if op.respN < 0 {
				want = nil
			}
			if d := firstDiffAt(want, got.r.Data()); d >= 0 {
				fails = append(fails, corr.Fail{Sig: "c17-payload-corrupted", Detail: fmt.Sprintf("%s: the caller got a response payload of %d bytes (first difference at offset %d)", describe, len(got.r.Data()), d), Op: idx})
				out = "corrupted"
			}
			if op.errN >= 0 && rerr == nil {
				fails = append(fails, corr.Fail{Sig: "c17-payload-corrupted", Detail: describe + ": the handler's error did not reach the caller", Op: idx})
				out = "corrupted"
			}
			if out == "" {
				out = "delivered"
			}
		}
	}
	// side effects on the honest peers: both still connected, no penalty on either side
	time.Sleep(2 * time.Millisecond)
	sa, sb := w.pa.VerifC17Scores(), w.pb.VerifC17Scores()
	ca, cb := hasPeer(w.pa.ConnectedPeers(), w.pb.ID()), hasPeer(w.pb.ConnectedPeers(), w.pa.ID())
	if len(sa) != 0 || len(sb) != 0 || !ca || !cb {
		fails = append(fails, corr.Fail{Sig: "c17-honest-peer-banned", Detail: fmt.Sprintf("%s: after the exchange between two honest nodes the requester's penalty table is %v, the responder's %v; requester still connected to responder: %v, responder to requester: %v", describe, sa, sb, ca, cb), Op: idx})
		out += "+banned"
	}
	if ids, ok := w.mpa.VerifC17PendingIDs(2 * time.Second); !ok {
		fails = append(fails, corr.Fail{Sig: "c17-hang-resmu", Detail: describe + ": resMu of the requester cannot be acquired after the request", Op: idx})
	} else if len(ids) != 0 {
		fails = append(fails, corr.Fail{Sig: "c17-leak", Detail: fmt.Sprintf("%s: %d response channels still registered after the request ended", describe, len(ids)), Op: idx})
	}
	return out, fails
}

// the world is shared by consecutive cases (cases run one at a time) and rebuilt after a failure
var (
	sizeMu     sync.Mutex
	sizeShared *sizeWorld
)

func parseSizeOp(s string) (*sizeOp, bool) {
	f := strings.Fields(s)
	num := func(i int) (int, bool) {
		if i >= len(f) {
			return 0, false
		}
		v, err := strconv.Atoi(f[i])
		return v, err == nil && v >= 0 && v <= 64<<20
	}
	if len(f) == 0 {
		return nil, false
	}
	op := &sizeOp{kind: f[0], respN: -1, errN: -1}
	var ok1, ok2, ok3 bool
	var sd int
	switch f[0] {
	case "req": // request payload n, the handler answers 32 bytes
		op.reqN, ok1 = num(1)
		sd, ok2 = num(2)
		op.respN, ok3 = 32, len(f) == 3
	case "resp": // small request, response payload n
		op.respN, ok1 = num(1)
		sd, ok2 = num(2)
		op.reqN, ok3 = 16, len(f) == 3
	case "rerr": // small request, the handler reports an error string of n characters
		op.errN, ok1 = num(1)
		sd, ok2 = num(2)
		op.reqN, ok3 = 16, len(f) == 3
	case "mix": // request payload n, response payload m, error string of e characters (e = 0: none)
		if len(f) != 5 {
			return nil, false
		}
		op.reqN, ok1 = num(1)
		op.respN, ok2 = num(2)
		e, ok := num(3)
		sd, ok3 = num(4)
		if !ok {
			return nil, false
		}
		if e > 0 {
			op.errN = e
		}
	default:
		return nil, false
	}
	if !ok1 || !ok2 || !ok3 {
		return nil, false
	}
	op.seed = uint64(sd)
	op.reqData = fill(op.reqN, op.seed)
	if op.respN >= 0 {
		op.resData = fill(op.respN, op.seed+1)
	}
	if op.errN >= 0 {
		op.resErr = text(op.errN, op.seed+2)
	}
	return op, true
}

func (sizeProp) RunImpl(c corr.Case) ([]string, []corr.Fail) {
	sizeMu.Lock()
	defer sizeMu.Unlock()
	var outs []string
	var fails []corr.Fail
	for i, s := range c.Ops {
		if strings.HasPrefix(s, "reset") {
			outs = append(outs, "ok")
			continue
		}
		op, ok := parseSizeOp(s)
		if !ok {
			outs = append(outs, "bad-op")
			continue
		}
		if sizeShared == nil {
			w, err := newSizeWorld()
			if err != nil {
				outs = append(outs, "harness-error")
				fails = append(fails, corr.Fail{Sig: "c17-harness", Detail: err.Error(), Op: i})
				continue
			}
			sizeShared = w
		}
		out, fs := sizeShared.run(op, i)
		outs = append(outs, out)
		fails = append(fails, fs...)
		if len(fs) > 0 {
			sizeShared.close()
			sizeShared = nil
		}
	}
	return outs, fails
}

func (sizeProp) Classify(c corr.Case, out []string) string {
	if len(c.Ops) < 2 || len(out) < 2 {
		return ""
	}
	f := strings.Fields(c.Ops[1])
	cl := f[0]
	if len(f) > 1 {
		if n, _ := strconv.Atoi(f[1]); n >= 1<<20 {
			cl += "-large"
		} else if n >= sizeSmallEdge {
			cl += "-medium"
		} else {
			cl += "-small"
		}
	}
	return cl + ":" + out[len(out)-1]
}

// ---------------------------------------------------------------------------------------------
// generation

// encodedLen of a request / response carrying n payload bytes (the package's own codec).
type encFn func(n int) int

// cachedEnc: the envelope overhead enc(n)-n depends only on the length of the varint holding n; it is measured
// once per class with the package's codec at the smallest size of the class.
func cachedEnc(enc encFn) encFn {
	ov := map[int]int{}
	return func(n int) int {
		lo := 0
		switch {
		case n == 0:
			lo = 0
		case n < 1<<7:
			lo = 1
		case n < 1<<14:
			lo = 1 << 7
		case n < 1<<21:
			lo = 1 << 14
		case n < 1<<28:
			lo = 1 << 21
		default:
			return enc(n)
		}
		o, ok := ov[lo]
		if !ok {
			o = enc(lo) - lo
			ov[lo] = o
		}
		return n + o
	}
}

// payloadForEncoded returns the payload size whose wire form has exactly target bytes (-1: none).
func payloadForEncoded(target int, enc encFn) int {
	if target < 1 {
		return -1
	}
	n := target - 64
	if n < 0 {
		n = 0
	}
	for i := 0; i < 6; i++ {
		d := target - enc(n)
		if d == 0 {
			return n
		}
		n += d
		if n < 0 {
			return -1
		}
	}
	return -1
}

func (sizeProp) Generate(rng *rand.Rand, tier string) []corr.Case {
	maxPow := 23 // 8 MiB
	if tier == "thorough" {
		maxPow = 24
	}
	srcHi := int64(16 << 20)
	if tier == "thorough" {
		srcHi = 32 << 20
	}
	src := sourceLimits(filepath.Dir(p2p.VerifC17SourceFile()), 256, srcHi)
	if os.Getenv("VERIF_C17SIZE_DEBUG") != "" {
		fmt.Fprintln(os.Stderr, "C17SIZE source limits:", src)
	}
	isSrc := map[int]bool{}
	bset := map[int]bool{}
	for _, v := range src {
		bset[int(v)] = true
		isSrc[int(v)] = true
	}
	for k := 0; k <= maxPow; k++ {
		bset[1<<k] = true
	}
	var bounds []int
	for b := range bset {
		bounds = append(bounds, b)
	}
	sort.Ints(bounds)

	self := p2p.PeerID("") // not part of the wire form
	id36 := "01234567-89ab-cdef-0123-456789abcdef"
	reqEnc := cachedEnc(func(n int) int { return len(p2p.VerifEncodeRequest(self, sizeProc, make([]byte, n))) })
	resEnc := cachedEnc(func(n int) int { return len(p2p.VerifC17EncodeResponse(id36, sizeProc, make([]byte, n), "")) })
	errEnc := cachedEnc(func(n int) int {
		return len(p2p.VerifC17EncodeResponse(id36, sizeProc, nil, string(make([]byte, n))))
	})

	var cases []corr.Case
	seen := map[string]bool{}
	add := func(tag, format string, a ...any) {
		op := fmt.Sprintf(format, a...)
		if strings.HasPrefix(op, "rerr 0 ") { // an error with an empty text is not representable on the wire (Error == "" means no error)
			return
		}
		key := op[:strings.LastIndex(op, " ")]
		if seen[key] {
			return
		}
		seen[key] = true
		cases = append(cases, corr.Case{Ops: []string{"reset", op}, Tag: tag})
	}
	sd := func() int { return rng.Intn(1 << 16) }
	for _, n := range []int{0, 1, 2, 3} {
		add("tiny", "mix %d %d 0 %d", n, n, sd())
		add("tiny", "rerr %d %d", n, sd())
		add("tiny", "mix %d %d %d %d", n, n, 1+n, sd())
	}
	for _, L := range bounds {
		large := L >= 1<<20
		tag := "pow2"
		if isSrc[L] {
			tag = "source-const"
		}
		// payload measured: L-1, L, L+1
		var sizes []int
		for _, n := range []int{L - 1, L, L + 1} {
			if n >= 0 {
				sizes = append(sizes, n)
			}
		}
		// encoded message measured: wire form of exactly L-1, L, L+1 bytes
		var reqSizes, resSizes, errSizes []int
		for _, t := range []int{L - 1, L, L + 1} {
			if n := payloadForEncoded(t, reqEnc); n >= 0 {
				reqSizes = append(reqSizes, n)
			}
			if n := payloadForEncoded(t, resEnc); n >= 0 {
				resSizes = append(resSizes, n)
			}
			if n := payloadForEncoded(t, errEnc); n >= 0 {
				errSizes = append(errSizes, n)
			}
		}
		// a random size inside the envelope band below the boundary
		if L > 256 {
			sizes = append(sizes, L-2-rng.Intn(120))
		}
		if !large {
			for _, n := range sizes {
				add(tag, "mix %d %d 0 %d", n, n, sd())
			}
			for _, n := range reqSizes {
				add(tag, "req %d %d", n, sd())
			}
			for _, n := range resSizes {
				add(tag, "resp %d %d", n, sd())
			}
			if L <= sizeSmallEdge || isSrc[L] || tier == "thorough" {
				for _, n := range append([]int{L - 1, L, L + 1}, errSizes...) {
					add(tag, "rerr %d %d", n, sd())
				}
			}
			continue
		}
		// large: each direction on its own; the quick tier keeps the band just below the boundary, the
		// boundary itself and one above for payload-measured sizes and the exact wire sizes L, L+1
		if tier != "thorough" && !isSrc[L] {
			sizes = []int{L - 1, L, L + 1, sizes[len(sizes)-1]}
			reqSizes = trimFirst(reqSizes)
			resSizes = trimFirst(resSizes)
		}
		for _, n := range sizes {
			add(tag, "req %d %d", n, sd())
			add(tag, "resp %d %d", n, sd())
		}
		for _, n := range reqSizes {
			add(tag, "req %d %d", n, sd())
		}
		for _, n := range resSizes {
			add(tag, "resp %d %d", n, sd())
		}
		if isSrc[L] || tier == "thorough" || L == 1<<20 {
			add(tag, "rerr %d %d", L-1, sd())
			add(tag, "rerr %d %d", L, sd())
			for _, n := range errSizes {
				add(tag, "rerr %d %d", n, sd())
			}
			add(tag, "mix %d %d %d %d", L/2, L/2, 1+rng.Intn(200), sd())
		}
	}
	// random sizes (log-uniform), both directions and error strings
	nr := 40
	top := 20
	if tier == "thorough" {
		nr, top = 1500, 23
	}
	for i := 0; i < nr; i++ {
		k := rng.Intn(top + 1)
		n := (1 << k) + rng.Intn(1<<k)
		m := 0
		if rng.Intn(2) == 0 {
			k2 := rng.Intn(top + 1)
			m = (1 << k2) + rng.Intn(1<<k2)
		}
		e := 0
		if rng.Intn(4) == 0 {
			e = 1 + rng.Intn(300)
		}
		add("random", "mix %d %d %d %d", n, m, e, sd())
	}
	return cases
}

// trimFirst drops the first element (wire size L-1) when there are three.
func trimFirst(l []int) []int {
	if len(l) == 3 {
		return l[1:]
	}
	return l
}
