//go:build verif

package c17

import (
	"testing"

	"github.com/LiskHQ/lisk-engine/pkg/p2p"
)

// TestSkeleton re-extracts the lock/channel skeleton of sendRequestMessage / onResponse from the
// current source and compares it with the table the Lean model assumes (the same check runs as the
// `skeleton` case of every harness run, oracle signature c17-skeleton-changed).
func TestSkeleton(t *testing.T) {
	got, err := extractSkeleton(p2p.VerifC17SourceFile())
	if err != nil {
		t.Fatal(err)
	}
	if got != expectedSkeleton {
		t.Fatalf("c17-skeleton-changed:\n got  %s\n want %s", got, expectedSkeleton)
	}
}
