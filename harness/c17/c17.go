// Package c17: schedule-forcing correspondence and model-free oracle for the P2P request/response
// layer (pkg/p2p/message_protocol.go: sendRequestMessage / onResponse / request).
//
// Every case runs on two real libp2p hosts on loopback with one real MessageProtocol each. The
// scenario ops force interleavings on the real code (gated remote handlers, a schedule point inside
// mp.send via a wrapped stream, responses injected through onResponse with harness-made streams,
// resMu held from outside) and the Lean model executes the corresponding schedule of the fixed
// protocol and predicts the outcome class. `stress` ops are scheduler-dependent and checked by the
// model-free oracle only: every call returns under a watchdog (c17-deadlock), every returned payload
// is the one the remote handler produced for that very request id (c17-miscorrelated), a response
// whose onResponse completed before the deadline is returned (c17-lost-reply), no entry stays in
// resCh (c17-leak). `skeleton` re-extracts the lock/channel skeleton from the current source
// (c17-skeleton-changed).
package c17

import (
	"bytes"
	"context"
	"errors"
	"fmt"
	"math/rand"
	"sort"
	"strconv"
	"strings"
	"sync"
	"sync/atomic"
	"time"

	"github.com/LiskHQ/lisk-engine/pkg/p2p"

	"verifharness/corr"
)

type prop struct{}

func init() { corr.Register(prop{}) }

func (prop) ID() string                 { return "C17" }
func (prop) Parallel() int              { return 4 }
func (prop) CaseTimeout() time.Duration { return 4 * time.Minute }

// runner = state of one case
type runner struct {
	w     *world
	fails []corr.Fail
	op    int
}

func (r *runner) fail(sig, detail string) {
	r.fails = append(r.fails, corr.Fail{Sig: sig, Detail: detail, Op: r.op})
}

func (r *runner) poison(detail string) string {
	r.w.poisoned = true
	r.fail("c17-deadlock", detail)
	return "hang"
}

func (rs *reqState) cur() *attempt {
	if len(rs.attempts) == 0 {
		return nil
	}
	return rs.attempts[len(rs.attempts)-1]
}

// scenario bookkeeping (mirrored by the Lean driver) ---------------------------------------------

func (r *runner) curAttempt(rs *reqState) *attempt {
	as := r.w.attemptsOf(rs)
	if len(as) == 0 {
		return nil
	}
	return as[len(as)-1]
}

func (r *runner) isShort(rs *reqState) bool { return len(r.w.attemptsOf(rs)) <= rs.short }

func (r *runner) shortWaiting() bool {
	for _, rs := range r.w.reqs {
		if !rs.finished && r.isShort(rs) {
			return true
		}
	}
	return false
}

// outcome word of a finished call + model-free checks of the returned value
func (r *runner) outcome(rs *reqState, res result) string {
	rs.finished = true
	rs.res = res
	switch {
	case res.err == nil && res.resp != nil:
		cur := r.curAttempt(rs)
		if cur == nil || res.resp.Error() != nil || !bytes.Equal(res.resp.Data(), payloadFor(cur.id, rs.data)) || res.resp.PeerID() != r.w.bID {
			r.fail("c17-miscorrelated", fmt.Sprintf("request %d returned payload %q which is not the response produced for its current id", rs.k, res.resp.Data()))
			return "miscorrelated"
		}
		return "ok"
	case p2p.VerifC17IsTimeout(res.err):
		return "timeout"
	case errors.Is(res.err, context.Canceled):
		return "cancelled"
	default:
		return "senderr"
	}
}

// waitResult waits for the call to return.
func (r *runner) waitResult(rs *reqState, d time.Duration) (result, bool) {
	select {
	case res := <-rs.result:
		return res, true
	case <-time.After(d):
		return result{}, false
	}
}

// waitAttempt waits until the remote handler has received the next attempt of rs.
func (r *runner) waitAttempt(rs *reqState, d time.Duration) (*attempt, bool) {
	select {
	case a := <-rs.events:
		return a, true
	case <-time.After(d):
		return nil, false
	}
}

// ops --------------------------------------------------------------------------------------------

func (r *runner) opStart(mode string, short int) string {
	w := r.w
	rs := w.newReq(len(w.reqs), mode == "retry", short, behGated, 0)
	w.reqs = append(w.reqs, rs)
	w.launch(rs)
	if _, ok := r.waitAttempt(rs, watchdog); !ok {
		// maybe the call failed
		if res, ok := r.waitResult(rs, 10*time.Millisecond); ok {
			return r.outcome(rs, res)
		}
		return r.poison("request was not transmitted within the watchdog")
	}
	return "started"
}

func (r *runner) opFast(mode string, n int) string {
	w := r.w
	beh := behGated
	if n == 0 {
		beh = behImmediate
	}
	// all attempts run with the short timeout: the response is in the channel before the select is
	// reached, so the timeout cannot matter (on code that drops the early response the call then
	// ends quickly with a timeout instead of blocking the case for the long timeout)
	rs := w.newReq(len(w.reqs), mode == "retry", 4, beh, 0)
	rs.stallFirst = true
	w.reqs = append(w.reqs, rs)
	w.launch(rs)
	var id string
	select {
	case id = <-rs.transmitted:
	case <-time.After(watchdog):
		return r.poison("request was not transmitted within the watchdog")
	}
	// the request is on the wire, the requester has not yet returned from mp.send
	if _, ok := r.waitAttempt(rs, watchdog); !ok {
		return r.poison("remote handler did not receive the request")
	}
	if n == 0 {
		// the remote handler answers at once; wait until A's onResponse has processed the response
		if !waitCond(watchdog, func() bool { return w.handledCount(id) >= 1 }) {
			close(rs.stallRelease)
			return r.poison("onResponse did not return for a response that arrived before the requester reached its select")
		}
		w.mu.Lock()
		rs.attempts[0].released = true
		w.mu.Unlock()
	} else {
		for i := 0; i < n; i++ {
			ok := within(watchdog, func() { w.callOnResponse(id, rs.data) })
			if !ok {
				close(rs.stallRelease)
				return r.poison("onResponse blocked on a response that arrived before the requester reached its select")
			}
		}
	}
	close(rs.stallRelease)
	res, ok := r.waitResult(rs, 2*watchdog)
	if !ok {
		return r.poison("requester did not return after a response that arrived before it reached its select")
	}
	out := r.outcome(rs, res)
	if out != "ok" {
		r.fail("c17-lost-reply", fmt.Sprintf("response for request id %s was processed by onResponse before the requester reached its select, but the call ended with %q", id, out))
	}
	return out + " unknown=" + strconv.Itoa(w.lg.unknownCount(id))
}

func (r *runner) opRespond(rs *reqState) string {
	cur := r.curAttempt(rs)
	r.w.mu.Lock()
	cur.released = true
	r.w.mu.Unlock()
	close(cur.gate)
	res, ok := r.waitResult(rs, 2*watchdog)
	if !ok {
		return r.poison("requester did not return after the remote handler answered")
	}
	out := r.outcome(rs, res)
	if out == "timeout" {
		r.fail("c17-lost-reply", fmt.Sprintf("request %d timed out although the response was sent long before the deadline", rs.k))
	}
	return out
}

// afterTimeout: the current (short) attempt times out by itself; either the call returns or the
// retry loop transmits the next attempt.
func (r *runner) afterTimeout(rs *reqState) string {
	select {
	case res := <-rs.result:
		return r.outcome(rs, res)
	case <-rs.events:
		return "retry"
	case <-time.After(shortTimeout + 2*watchdog):
		return r.poison(fmt.Sprintf("request %d neither returned nor retried after its timeout", rs.k))
	}
}

func (r *runner) opCancel(rs *reqState) string {
	rs.cancel()
	res, ok := r.waitResult(rs, watchdog)
	if !ok {
		return r.poison("requester did not return after its context was cancelled")
	}
	return r.outcome(rs, res)
}

func (r *runner) opInject(rs *reqState, a, n int) string {
	w := r.w
	as := w.attemptsOf(rs)
	at := as[a]
	cur := !rs.finished && a == len(as)-1
	u0 := w.lg.unknownCount(at.id)
	word := "-"
	for i := 0; i < n; i++ {
		if !within(watchdog, func() { w.callOnResponse(at.id, rs.data) }) {
			return r.poison("onResponse blocked on an injected response")
		}
		if i == 0 && cur {
			res, ok := r.waitResult(rs, 2*watchdog)
			if !ok {
				return r.poison("requester did not return after a response was injected")
			}
			word = r.outcome(rs, res)
			if word == "timeout" {
				r.fail("c17-lost-reply", "injected response for a waiting request was not returned")
			}
		}
	}
	return word + " unknown=" + strconv.Itoa(w.lg.unknownCount(at.id)-u0)
}

func (r *runner) opLate(rs *reqState, a int) string {
	w := r.w
	at := w.attemptsOf(rs)[a]
	u0 := w.lg.unknownCount(at.id)
	h0 := w.handledCount(at.id)
	w.mu.Lock()
	at.released = true
	w.mu.Unlock()
	close(at.gate)
	// the response travels over the real connection; wait until A's onResponse has processed it
	if !waitCond(watchdog, func() bool { return w.handledCount(at.id) > h0 }) {
		return r.poison("onResponse did not return for a late response")
	}
	if w.lg.unknownCount(at.id) == u0+1 {
		return "miss"
	}
	return "hit"
}

func (r *runner) opRace(rs *reqState, order string) string {
	w := r.w
	cur := r.curAttempt(rs)
	deadline := cur.recvAt.Add(shortTimeout + 80*time.Millisecond)
	gDone := make(chan struct{})
	startG := func() {
		c0 := w.lg.receivedCount()
		go func() {
			w.callOnResponse(cur.id, rs.data)
			close(gDone)
		}()
		// onResponse has decoded the message; it now takes the rate-limit path and then resMu.Lock()
		waitCond(watchdog, func() bool { return w.lg.receivedCount() > c0 })
		time.Sleep(2 * time.Millisecond)
	}
	w.mpa.VerifC17LockRes()
	if order == "hfirst" {
		startG()
	}
	if d := time.Until(deadline); d > 0 {
		time.Sleep(d)
	}
	// the requester has left its select by timeout and is blocked on resMu.Lock()
	if order != "hfirst" {
		startG()
	}
	w.mpa.VerifC17UnlockRes()
	select {
	case <-gDone:
	case <-time.After(watchdog):
		return r.poison("onResponse blocked: response delivered while the requester was leaving its select by timeout")
	}
	return r.afterTimeout(rs)
}

func (r *runner) opLen() string {
	ids, ok := r.w.mpa.VerifC17PendingIDs(watchdog)
	if !ok {
		return r.poison("resMu could not be acquired")
	}
	return "len " + strconv.Itoa(len(ids))
}

func within(d time.Duration, f func()) bool {
	done := make(chan struct{})
	go func() {
		f()
		close(done)
	}()
	select {
	case <-done:
		return true
	case <-time.After(d):
		return false
	}
}

// RunImpl ----------------------------------------------------------------------------------------

func (prop) RunImpl(c corr.Case) (out []string, fails []corr.Fail) {
	r := &runner{}
	defer func() {
		if r.w != nil {
			r.finish()
			r.w.close()
		}
		fails = append(fails, r.fails...)
	}()
	for i, op := range c.Ops {
		r.op = i
		line := r.runOp(op)
		out = append(out, line)
	}
	return out, nil
}

func (r *runner) runOp(op string) (line string) {
	defer func() {
		if x := recover(); x != nil {
			line = "panic"
			r.fail("c17-panic", fmt.Sprint(x))
		}
	}()
	f := strings.Fields(op)
	if len(f) == 0 {
		return "bad-op"
	}
	if f[0] == "reset" {
		if len(f) != 1 {
			return "bad-op"
		}
		if r.w != nil {
			r.finish()
			r.w.close()
		}
		w, err := newWorld()
		if err != nil {
			r.w = nil
			r.fail("c17-harness", "cannot build the two-host world: "+err.Error())
			return "harness-error"
		}
		r.w = w
		return "ok"
	}
	if r.w == nil {
		return "harness-error"
	}
	if r.w.poisoned {
		return "poisoned"
	}
	num := func(s string) (int, bool) {
		n, err := strconv.Atoi(s)
		return n, err == nil && n >= 0
	}
	req := func(s string) *reqState {
		k, ok := num(s)
		if !ok || k >= len(r.w.reqs) {
			return nil
		}
		return r.w.reqs[k]
	}
	waitingUnreleased := func(rs *reqState) bool {
		if rs == nil || rs.finished {
			return false
		}
		cur := r.curAttempt(rs)
		return cur != nil && !cur.released
	}
	switch {
	case f[0] == "skeleton" && len(f) == 1:
		return r.opSkeleton()
	case f[0] == "stress":
		if r.shortWaiting() {
			return "bad"
		}
		return r.opStress(f[1:])
	case f[0] == "len" && len(f) == 1:
		if r.shortWaiting() {
			return "bad"
		}
		return r.opLen()
	case f[0] == "start" && len(f) == 3:
		sh, ok := num(f[2])
		if !ok || (f[1] != "once" && f[1] != "retry") || sh > 4 || len(r.w.reqs) >= 16 || r.shortWaiting() {
			return "bad"
		}
		return r.opStart(f[1], sh)
	case f[0] == "fast" && len(f) == 3:
		n, ok := num(f[2])
		if !ok || (f[1] != "once" && f[1] != "retry") || n > 3 || len(r.w.reqs) >= 16 || r.shortWaiting() {
			return "bad"
		}
		return r.opFast(f[1], n)
	case f[0] == "respond" && len(f) == 2:
		rs := req(f[1])
		if !waitingUnreleased(rs) || r.shortWaiting() {
			return "bad"
		}
		return r.opRespond(rs)
	case f[0] == "timeout" && len(f) == 2:
		rs := req(f[1])
		if !waitingUnreleased(rs) || !r.isShort(rs) {
			return "bad"
		}
		return r.afterTimeout(rs)
	case f[0] == "cancel" && len(f) == 2:
		rs := req(f[1])
		if !waitingUnreleased(rs) || r.shortWaiting() {
			return "bad"
		}
		return r.opCancel(rs)
	case f[0] == "inject" && len(f) == 4:
		rs := req(f[1])
		a, ok1 := num(f[2])
		n, ok2 := num(f[3])
		if rs == nil || !ok1 || !ok2 {
			return "bad"
		}
		as := r.w.attemptsOf(rs)
		if a >= len(as) || n == 0 || n > 3 || r.shortWaiting() {
			return "bad"
		}
		if !rs.finished && a == len(as)-1 && as[a].released {
			return "bad"
		}
		return r.opInject(rs, a, n)
	case f[0] == "late" && len(f) == 3:
		rs := req(f[1])
		a, ok := num(f[2])
		if rs == nil || !ok {
			return "bad"
		}
		as := r.w.attemptsOf(rs)
		if a >= len(as) || as[a].released || (!rs.finished && a == len(as)-1) || r.shortWaiting() {
			return "bad"
		}
		return r.opLate(rs, a)
	case f[0] == "race" && len(f) == 3:
		rs := req(f[1])
		if !waitingUnreleased(rs) || !r.isShort(rs) || (f[2] != "hfirst" && f[2] != "rfirst") {
			return "bad"
		}
		return r.opRace(rs, f[2])
	}
	return "bad-op"
}

// finish: end of case — every call still waiting is cancelled and must return, nothing may stay
// registered.
func (r *runner) finish() {
	w := r.w
	r.op = -1
	if w.poisoned {
		return
	}
	for _, rs := range w.reqs {
		if rs.finished {
			continue
		}
		rs.cancel()
		res, ok := r.waitResult(rs, watchdog)
		if !ok {
			r.poison(fmt.Sprintf("request %d did not return after cancellation at the end of the case", rs.k))
			return
		}
		r.outcome(rs, res)
	}
	ids, ok := w.mpa.VerifC17PendingIDs(watchdog)
	if !ok {
		r.poison("resMu could not be acquired at the end of the case")
		return
	}
	if len(ids) != 0 {
		r.fail("c17-leak", fmt.Sprintf("%d entries left in resCh after all calls returned: %v", len(ids), ids))
	}
}

// stress -----------------------------------------------------------------------------------------

// stress <n> <timeoutMs> <lat: below|around|above|mix> <cancelPct> <dupPct> <once|retry> <seed>
func (r *runner) opStress(a []string) string {
	if len(a) != 7 {
		return "bad-op"
	}
	n, e1 := strconv.Atoi(a[0])
	tms, e2 := strconv.Atoi(a[1])
	cancelPct, e3 := strconv.Atoi(a[3])
	dupPct, e4 := strconv.Atoi(a[4])
	seed, e5 := strconv.ParseInt(a[6], 10, 64)
	if e1 != nil || e2 != nil || e3 != nil || e4 != nil || e5 != nil || n < 1 || n > 1024 || tms < 10 || tms > 2000 {
		return "bad-op"
	}
	w := r.w
	T := time.Duration(tms) * time.Millisecond
	retry := a[5] == "retry"
	rng := rand.New(rand.NewSource(seed))
	ms := func(lo, hi int) time.Duration { // uniform in [lo,hi] ms with 0.1 ms resolution
		return time.Duration(lo*10+rng.Intn((hi-lo)*10+1)) * 100 * time.Microsecond
	}
	latOf := func() time.Duration {
		cl := a[2]
		if cl == "mix" {
			cl = []string{"below", "around", "above"}[rng.Intn(3)]
		}
		switch cl {
		case "below":
			if rng.Intn(3) == 0 {
				return 0 // answer at once: the response races with the requester's way into its select
			}
			return ms(0, tms/4)
		case "around":
			return T - time.Millisecond + ms(0, 6) - 3*time.Millisecond
		default:
			return T + ms(20, tms)
		}
	}
	w.mpa.VerifC17SetTimeout(T)
	type plan struct {
		rs       *reqState
		cancelIn time.Duration
		dupIn    time.Duration
	}
	plans := make([]*plan, n)
	maxLat := time.Duration(0)
	for i := range plans {
		rs := w.newReq(-1, retry, 0, behLatency, latOf())
		if rs.latency > maxLat {
			maxLat = rs.latency
		}
		if rng.Intn(2) == 0 {
			rs.jitter = ms(0, 3)
		}
		p := &plan{rs: rs, cancelIn: -1, dupIn: -1}
		if rng.Intn(100) < cancelPct {
			p.cancelIn = ms(0, tms*3/2)
		}
		if rng.Intn(100) < dupPct {
			p.dupIn = ms(0, 2*tms)
		}
		plans[i] = p
	}
	var aux sync.WaitGroup
	var fmu sync.Mutex
	blocked := ""
	// lock pulses: resMu is held from outside around the instants at which the attempts time out, so
	// that requesters leaving their select and response handlers queue up on it together
	if rng.Intn(2) == 0 {
		attempts := 1
		if retry {
			attempts = p2p.VerifC17MaxRetries + 1
		}
		start := time.Now()
		aux.Add(1)
		go func() {
			defer aux.Done()
			for j := 1; j <= attempts; j++ {
				if d := time.Until(start.Add(time.Duration(j)*T - 3*time.Millisecond)); d > 0 {
					time.Sleep(d)
				}
				w.mpa.VerifC17LockRes()
				time.Sleep(6 * time.Millisecond)
				w.mpa.VerifC17UnlockRes()
			}
		}()
	}
	for _, p := range plans {
		p := p
		w.launch(p.rs)
		if p.cancelIn >= 0 {
			aux.Add(1)
			go func() {
				defer aux.Done()
				time.Sleep(p.cancelIn)
				w.mu.Lock()
				p.rs.cancelAt = time.Now()
				w.mu.Unlock()
				p.rs.cancel()
			}()
		}
		if p.dupIn >= 0 {
			aux.Add(1)
			go func() {
				defer aux.Done()
				// duplicate (or early, or late) copy of the genuine response, straight into onResponse
				select {
				case at := <-p.rs.events:
					time.Sleep(p.dupIn)
					if !within(watchdog, func() { w.callOnResponse(at.id, p.rs.data) }) {
						fmu.Lock()
						blocked = "onResponse blocked on a duplicate response for id " + at.id
						fmu.Unlock()
					}
				case <-time.After(watchdog):
				}
			}()
		}
	}
	budget := time.Duration(p2p.VerifC17MaxRetries+1)*(T+20*time.Millisecond) + maxLat + watchdog
	deadline := time.Now().Add(budget)
	for _, p := range plans {
		res, ok := r.waitResult(p.rs, time.Until(deadline))
		if !ok {
			return r.poison(fmt.Sprintf("stress: a call did not return within its timeout and retry budget (%v)", budget))
		}
		p.rs.finished = true
		p.rs.res = res
	}
	aux.Wait()
	if blocked != "" {
		return r.poison(blocked)
	}
	// give responses still in flight time to reach onResponse, then look at the map
	time.Sleep(5 * time.Millisecond)
	ids, ok := w.mpa.VerifC17PendingIDs(watchdog)
	if !ok {
		return r.poison("stress: resMu could not be acquired after all calls returned")
	}
	waitingScenario := 0
	for _, rs := range w.reqs {
		if !rs.finished {
			waitingScenario++
		}
	}
	if len(ids) != waitingScenario {
		r.fail("c17-leak", fmt.Sprintf("stress: %d entries in resCh after all calls returned, %d expected", len(ids), waitingScenario))
	}
	// correlation and lost replies
	w.mu.Lock()
	handled := append([]respEvent{}, w.handled...)
	writes := map[string]time.Time{}
	for k, v := range w.writes {
		writes[k] = v
	}
	w.mu.Unlock()
	firstDone := map[string]time.Time{}
	for _, e := range handled {
		if t, ok := firstDone[e.id]; !ok || e.done.Before(t) {
			firstDone[e.id] = e.done
		}
	}
	const margin = 15 * time.Millisecond
	lost := 0
	for _, p := range plans {
		rs := p.rs
		as := w.attemptsOf(rs)
		res := rs.res
		timedOut := len(as) // attempts [0,timedOut) were abandoned by timeout
		switch {
		case res.err == nil && res.resp != nil:
			if len(as) == 0 || res.resp.Error() != nil || res.resp.PeerID() != w.bID || !bytes.Equal(res.resp.Data(), payloadFor(as[len(as)-1].id, rs.data)) {
				r.fail("c17-miscorrelated", fmt.Sprintf("stress: returned payload %q is not the response produced for the current request id", res.resp.Data()))
			}
			timedOut = len(as) - 1
		case p2p.VerifC17IsTimeout(res.err):
		case errors.Is(res.err, context.Canceled):
			timedOut = len(as) - 1
		default:
			// send error (e.g. the context was cancelled while the stream was opened)
			timedOut = len(as) - 1
			if p.cancelIn < 0 {
				// libp2p's resource manager refuses to open further streams when hundreds of requests are in flight
				// on a loaded machine: the send fails before anything is written, the caller gets the error - that is
				// a reported failure, not a lost reply, as long as the remote handler never saw that request id
				_, seen := firstDone[lastID(as)]
				if strings.Contains(res.err.Error(), "resource limit exceeded") && !seen {
					refusedSends.Add(1)
				} else {
					r.fail("c17-unexpected-error", "stress: call failed with "+res.err.Error())
				}
			}
		}
		for j := 0; j < timedOut && j < len(as); j++ {
			id := as[j].id
			tw, ok1 := writes[id]
			td, ok2 := firstDone[id]
			if ok1 && ok2 && td.Before(tw.Add(T-margin)) && (rs.cancelAt.IsZero() || rs.cancelAt.After(td.Add(margin))) {
				if lost++; lost > 3 {
					continue
				}
				r.fail("c17-lost-reply", fmt.Sprintf("stress: onResponse finished the response for id %s %v after the request was written (timeout %v) but the attempt ended with a timeout", id, td.Sub(tw), T))
			}
		}
	}
	return "done"
}

// refusedSends counts stress requests whose send was refused by libp2p's resource manager (reported errors).
var refusedSends atomic.Int64

func lastID(as []*attempt) string {
	if len(as) == 0 {
		return ""
	}
	return as[len(as)-1].id
}

// Classify ---------------------------------------------------------------------------------------

func (prop) Classify(c corr.Case, out []string) string {
	kinds := map[string]bool{}
	for i, op := range c.Ops {
		if i >= len(out) {
			break
		}
		f := strings.Fields(op)
		if len(f) == 0 || f[0] == "reset" || f[0] == "len" || strings.HasPrefix(out[i], "bad") {
			continue
		}
		k := f[0]
		switch f[0] {
		case "stress":
			k = "stress-" + f[3] + "-" + f[6]
		case "race":
			k = "race-" + f[2] + "-" + out[i]
		case "timeout":
			k = "timeout-" + out[i]
		case "fast":
			k = "fast" + f[2]
		case "inject":
			k = "inject-" + strings.Fields(out[i])[0]
		}
		kinds[k] = true
	}
	if len(kinds) == 0 {
		return ""
	}
	ks := []string{}
	for k := range kinds {
		ks = append(ks, k)
	}
	sort.Strings(ks)
	return strings.Join(ks, "+")
}
