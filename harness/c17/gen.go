package c17

import (
	"fmt"
	"math/rand"

	"verifharness/corr"
)

// generator-side mirror of the scenario bookkeeping
type gReq struct {
	retry    bool
	short    int
	attempts []bool // released flag per attempt
	waiting  bool
}

func (g *gReq) isShort() bool { return len(g.attempts) <= g.short }

type gen struct {
	rng  *rand.Rand
	reqs []*gReq
	ops  []string
}

func (g *gen) emit(format string, a ...interface{}) { g.ops = append(g.ops, fmt.Sprintf(format, a...)) }

func (g *gen) shortWaiting() int {
	for k, r := range g.reqs {
		if r.waiting && r.isShort() {
			return k
		}
	}
	return -1
}

func (g *gen) pick(pred func(*gReq) bool) int {
	c := []int{}
	for k, r := range g.reqs {
		if pred(r) {
			c = append(c, k)
		}
	}
	if len(c) == 0 {
		return -1
	}
	return c[g.rng.Intn(len(c))]
}

// timedOut updates the mirror after the current attempt of k ended by timeout.
func (g *gen) timedOut(k int) {
	r := g.reqs[k]
	if r.retry && len(r.attempts) < 4 {
		r.attempts = append(r.attempts, false)
	} else {
		r.waiting = false
	}
}

func (g *gen) mode() (string, bool) {
	if g.rng.Intn(2) == 0 {
		return "retry", true
	}
	return "once", false
}

func (g *gen) step() {
	rng := g.rng
	if rng.Intn(40) == 0 { // malformed / out-of-protocol op
		bad := []string{"respond 99", "timeout 0", "cancel 77", "inject 0 9 1", "inject 0 0 0", "late 0 0", "race 0 sideways", "start twice 1", "start once 9", "fast once 7", "bogus", "len 3"}
		g.emit("%s", bad[rng.Intn(len(bad))])
		// "timeout 0" / "late 0 0" may be legal: keep the mirror exact
		last := g.ops[len(g.ops)-1]
		if last == "timeout 0" && len(g.reqs) > 0 && g.reqs[0].waiting && g.reqs[0].isShort() && !g.reqs[0].attempts[len(g.reqs[0].attempts)-1] {
			g.timedOut(0)
		}
		if last == "late 0 0" && len(g.reqs) > 0 && g.shortWaiting() < 0 {
			r := g.reqs[0]
			if !r.attempts[0] && !(r.waiting && len(r.attempts) == 1) {
				r.attempts[0] = true
			}
		}
		return
	}
	if k := g.shortWaiting(); k >= 0 {
		if rng.Intn(3) == 0 {
			order := "hfirst"
			if rng.Intn(2) == 0 {
				order = "rfirst"
			}
			g.emit("race %d %s", k, order)
		} else {
			g.emit("timeout %d", k)
		}
		g.timedOut(k)
		return
	}
	waiting := func(r *gReq) bool { return r.waiting && !r.attempts[len(r.attempts)-1] }
	for tries := 0; tries < 20; tries++ {
		switch rng.Intn(10) {
		case 0, 1:
			if len(g.reqs) >= 10 {
				continue
			}
			m, retry := g.mode()
			sh := 0
			switch rng.Intn(4) {
			case 0:
				sh = 0
			case 1:
				sh = 1
			default:
				if retry {
					sh = 1 + rng.Intn(4)
				} else {
					sh = 1
				}
			}
			g.emit("start %s %d", m, sh)
			g.reqs = append(g.reqs, &gReq{retry: retry, short: sh, attempts: []bool{false}, waiting: true})
			return
		case 2:
			if len(g.reqs) >= 10 {
				continue
			}
			m, retry := g.mode()
			n := rng.Intn(4)
			g.emit("fast %s %d", m, n)
			g.reqs = append(g.reqs, &gReq{retry: retry, short: 0, attempts: []bool{n == 0}, waiting: false})
			return
		case 3, 4:
			k := g.pick(waiting)
			if k < 0 {
				continue
			}
			g.emit("respond %d", k)
			r := g.reqs[k]
			r.attempts[len(r.attempts)-1] = true
			r.waiting = false
			return
		case 5:
			k := g.pick(waiting)
			if k < 0 {
				continue
			}
			g.emit("cancel %d", k)
			g.reqs[k].waiting = false
			return
		case 6, 7:
			k := g.pick(func(r *gReq) bool { return true })
			if k < 0 {
				continue
			}
			r := g.reqs[k]
			a := rng.Intn(len(r.attempts))
			if r.waiting && a == len(r.attempts)-1 && r.attempts[a] {
				continue
			}
			n := 1 + rng.Intn(3)
			g.emit("inject %d %d %d", k, a, n)
			if r.waiting && a == len(r.attempts)-1 {
				r.waiting = false
			}
			return
		case 8:
			k := g.pick(func(r *gReq) bool {
				for a, rel := range r.attempts {
					if !rel && !(r.waiting && a == len(r.attempts)-1) {
						return true
					}
				}
				return false
			})
			if k < 0 {
				continue
			}
			r := g.reqs[k]
			for _, a := range rng.Perm(len(r.attempts)) {
				if !r.attempts[a] && !(r.waiting && a == len(r.attempts)-1) {
					g.emit("late %d %d", k, a)
					r.attempts[a] = true
					return
				}
			}
		case 9:
			g.emit("len")
			return
		}
	}
	g.emit("len")
}

func stressOp(rng *rand.Rand, tier string) string {
	n := []int{1, 2, 8, 24, 48}[rng.Intn(5)]
	if tier == "thorough" && rng.Intn(3) == 0 {
		n = []int{96, 160, 256}[rng.Intn(3)]
	}
	t := []int{40, 60, 90, 150}[rng.Intn(4)]
	lat := []string{"below", "around", "around", "above", "mix", "mix"}[rng.Intn(6)]
	cancelPct := []int{0, 0, 10, 40}[rng.Intn(4)]
	dupPct := []int{0, 20, 60, 100}[rng.Intn(4)]
	mode := []string{"once", "retry"}[rng.Intn(2)]
	return fmt.Sprintf("stress %d %d %s %d %d %s %d", n, t, lat, cancelPct, dupPct, mode, rng.Int63n(1<<40))
}

func (prop) Generate(rng *rand.Rand, tier string) []corr.Case {
	nScen, nStress := 110, 40
	if tier == "thorough" {
		nScen, nStress = 420, 140
	}
	cases := []corr.Case{
		{Ops: []string{"reset", "skeleton"}, Tag: "skeleton"},
		// the two schedules of the design notes, spelled out
		{Ops: []string{"reset", "fast once 0", "fast once 1", "fast retry 3", "len"}, Tag: "fixed:response-before-select"},
		{Ops: []string{"reset", "start once 1", "race 0 hfirst", "start once 1", "race 1 rfirst", "start retry 4", "race 2 hfirst", "race 2 rfirst", "race 2 hfirst", "race 2 hfirst", "len"}, Tag: "fixed:timeout-vs-deliver"},
		{Ops: []string{"reset", "start retry 2", "timeout 0", "timeout 0", "late 0 0", "inject 0 1 2", "start once 0", "inject 0 2 3", "respond 1", "late 0 2", "len"}, Tag: "fixed:late-and-duplicate"},
	}
	for i := 0; i < nScen; i++ {
		g := &gen{rng: rng, ops: []string{"reset"}}
		n := 4 + rng.Intn(14)
		for len(g.ops) < n {
			g.step()
		}
		// drain short attempts so that the trailing ops are deterministic, then look at the map
		for g.shortWaiting() >= 0 {
			k := g.shortWaiting()
			g.emit("timeout %d", k)
			g.timedOut(k)
		}
		if rng.Intn(3) == 0 {
			g.emit("%s", stressOp(rng, "quick"))
		}
		g.emit("len")
		cases = append(cases, corr.Case{Ops: g.ops, Tag: "scenario"})
	}
	for i := 0; i < nStress; i++ {
		ops := []string{"reset"}
		if rng.Intn(2) == 0 {
			ops = append(ops, "start once 0")
		}
		for j := 0; j < 1+rng.Intn(3); j++ {
			ops = append(ops, stressOp(rng, tier))
		}
		ops = append(ops, "len")
		cases = append(cases, corr.Case{Ops: ops, Tag: "stress"})
	}
	return cases
}
