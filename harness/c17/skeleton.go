package c17

import (
	"fmt"
	"go/ast"
	"go/parser"
	"go/token"
	"strings"

	"github.com/LiskHQ/lisk-engine/pkg/p2p"
)

// The lock / channel skeleton the Lean model (Model/ReqResp.lean: skelSendRequestMessage,
// skelOnResponse) assumes; the same string is printed by the model driver for the `skeleton` op.
const expectedSkeleton = "sendRequestMessage=newid,make:1,lock,store,unlock,send,iferr[lock,delete,unlock,return]," +
	"select[recv:lock,delete,unlock,return|timer:lock,delete,unlock,return|ctx:lock,delete,unlock,return]" +
	" onResponse=lock,defer-unlock,lookup,select[send:|default:]"

func exprString(e ast.Expr) string {
	switch x := e.(type) {
	case *ast.Ident:
		return x.Name
	case *ast.SelectorExpr:
		return exprString(x.X) + "." + x.Sel.Name
	case *ast.CallExpr:
		return exprString(x.Fun) + "()"
	case *ast.IndexExpr:
		return exprString(x.X) + "[]"
	case *ast.UnaryExpr:
		return x.Op.String() + exprString(x.X)
	case *ast.StarExpr:
		return "*" + exprString(x.X)
	case *ast.ChanType:
		return "chan"
	case *ast.BinaryExpr:
		return exprString(x.X) + x.Op.String() + exprString(x.Y)
	}
	return "?"
}

func callName(e ast.Expr) (string, *ast.CallExpr) {
	if c, ok := e.(*ast.CallExpr); ok {
		return exprString(c.Fun), c
	}
	return "", nil
}

type skel struct {
	toks []string
	errs []string
}

func (s *skel) emit(t string) { s.toks = append(s.toks, t) }

func (s *skel) exprTokens(e ast.Expr) {
	name, call := callName(e)
	switch name {
	case "newRequestMessage":
		s.emit("newid")
	case "make":
		if len(call.Args) >= 1 {
			if _, isChan := call.Args[0].(*ast.ChanType); isChan {
				capacity := "0"
				if len(call.Args) == 2 {
					if lit, ok := call.Args[1].(*ast.BasicLit); ok {
						capacity = lit.Value
					} else {
						capacity = "?"
					}
				}
				s.emit("make:" + capacity)
			}
		}
	case "mp.resMu.Lock":
		s.emit("lock")
	case "mp.resMu.Unlock":
		s.emit("unlock")
	case "delete":
		if len(call.Args) == 2 && exprString(call.Args[0]) == "mp.resCh" {
			s.emit("delete")
		}
	case "mp.send":
		s.emit("send")
	}
}

func (s *skel) commName(c *ast.CommClause) string {
	if c.Comm == nil {
		return "default"
	}
	var rhs ast.Expr
	switch x := c.Comm.(type) {
	case *ast.SendStmt:
		return "send"
	case *ast.AssignStmt:
		rhs = x.Rhs[0]
	case *ast.ExprStmt:
		rhs = x.X
	}
	if u, ok := rhs.(*ast.UnaryExpr); ok && u.Op == token.ARROW {
		switch exprString(u.X) {
		case "ch":
			return "recv"
		case "time.After()":
			return "timer"
		case "ctx.Done()":
			return "ctx"
		}
		return "recv?" + exprString(u.X)
	}
	return "?"
}

func (s *skel) stmts(list []ast.Stmt) {
	for _, st := range list {
		s.stmt(st)
	}
}

func (s *skel) stmt(st ast.Stmt) {
	switch x := st.(type) {
	case *ast.AssignStmt:
		for _, l := range x.Lhs {
			if ix, ok := l.(*ast.IndexExpr); ok && exprString(ix.X) == "mp.resCh" {
				s.emit("store")
			}
		}
		for _, r := range x.Rhs {
			s.exprTokens(r)
		}
	case *ast.ExprStmt:
		s.exprTokens(x.X)
	case *ast.DeferStmt:
		if exprString(x.Call.Fun) == "mp.resMu.Unlock" {
			s.emit("defer-unlock")
		} else if strings.Contains(exprString(x.Call.Fun), "resMu") {
			s.emit("defer-?")
		}
	case *ast.SendStmt:
		s.emit("chsend")
	case *ast.ReturnStmt:
		s.emit("return")
	case *ast.IfStmt:
		isLookup := false
		if as, ok := x.Init.(*ast.AssignStmt); ok {
			for _, r := range as.Rhs {
				if ix, ok := r.(*ast.IndexExpr); ok && exprString(ix.X) == "mp.resCh" {
					isLookup = true
				}
			}
			if !isLookup {
				s.stmt(x.Init)
			}
		}
		switch {
		case isLookup:
			s.emit("lookup")
			s.stmts(x.Body.List)
		case strings.Contains(exprString(x.Cond), "err"):
			sub := &skel{}
			sub.stmts(x.Body.List)
			if len(sub.toks) > 0 {
				s.emit("iferr[" + strings.Join(sub.toks, ",") + "]")
			}
		default:
			// other conditionals (e.g. `if newMsg.Error != ""`): only lock / channel actions inside matter
			sub := &skel{}
			sub.stmts(x.Body.List)
			for _, t := range sub.toks {
				if t != "return" {
					s.emit("if?" + t)
				}
			}
		}
	case *ast.SelectStmt:
		br := []string{}
		for _, c := range x.Body.List {
			cc := c.(*ast.CommClause)
			sub := &skel{}
			sub.stmts(cc.Body)
			br = append(br, s.commName(cc)+":"+strings.Join(sub.toks, ","))
		}
		s.emit("select[" + strings.Join(br, "|") + "]")
	case *ast.BlockStmt:
		s.stmts(x.List)
	case *ast.ForStmt:
		s.emit("for?")
	case *ast.GoStmt:
		s.emit("go?")
	}
}

// extractSkeleton re-extracts the lock/channel skeleton of sendRequestMessage and onResponse from
// the source file the binary was built from.
func extractSkeleton(file string) (string, error) {
	fset := token.NewFileSet()
	f, err := parser.ParseFile(fset, file, nil, 0)
	if err != nil {
		return "", err
	}
	parts := map[string]string{}
	for _, d := range f.Decls {
		fd, ok := d.(*ast.FuncDecl)
		if !ok || fd.Body == nil {
			continue
		}
		switch fd.Name.Name {
		case "sendRequestMessage":
			s := &skel{}
			s.stmts(fd.Body.List)
			parts[fd.Name.Name] = strings.Join(s.toks, ",")
		case "onResponse":
			// decoding, handler lookup and rate limiting precede the critical section
			s := &skel{}
			s.stmts(fd.Body.List)
			i := 0
			for i < len(s.toks) && s.toks[i] != "lock" {
				i++
			}
			parts[fd.Name.Name] = strings.Join(s.toks[i:], ",")
		}
	}
	if parts["sendRequestMessage"] == "" || parts["onResponse"] == "" {
		return "", fmt.Errorf("functions not found in %s", file)
	}
	return "sendRequestMessage=" + parts["sendRequestMessage"] + " onResponse=" + parts["onResponse"], nil
}

func (r *runner) opSkeleton() string {
	got, err := extractSkeleton(p2p.VerifC17SourceFile())
	if err != nil {
		r.fail("c17-skeleton-changed", "cannot extract the skeleton: "+err.Error())
		return "skeleton-error"
	}
	if got != expectedSkeleton {
		r.fail("c17-skeleton-changed", "lock/channel skeleton of message_protocol.go differs from the one the model assumes: "+got)
	}
	return got
}
