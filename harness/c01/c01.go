// Package c01: finality safety. Fork trees of chain-valid headers are built by a validator
// simulator (honest validators follow fork choice, report their largest generated height and never
// sign contradicting headers; Byzantine ones with < 1/3 weight extend any block with any
// maxHeightGenerated). Every branch is processed by a real liskbft module; the model-free oracle
// checks that the finalized prefixes of all branches are pairwise compatible, and each branch is
// also compared with the Lean model.
package c01

import (
	"fmt"
	"math/rand"
	"strings"

	"github.com/LiskHQ/lisk-engine/pkg/consensus/contradiction"

	"verifharness/bftsim"
	"verifharness/corr"
)

type prop struct{}

func init() { corr.Register(prop{}) }

func (prop) ID() string    { return "C01" }
func (prop) Parallel() int { return 8 }

type hdr struct {
	height, mhg, mhp uint32
	gen              []byte
}

func (h hdr) Height() uint32             { return h.height }
func (h hdr) GeneratorAddress() []byte   { return h.gen }
func (h hdr) MaxHeightGenerated() uint32 { return h.mhg }
func (h hdr) MaxHeightPrevoted() uint32  { return h.mhp }

type block struct {
	id     int
	parent *block
	h      hdr
	op     string
	// dynamic parameters (dyn.go): ops executed after the block while it is processed (a parameter
	// change in force from the next height), the parameters in force for this block and for its children
	post    []string
	in, par *pset
}

type validator struct {
	addr   []byte
	weight uint64
	byz    bool
	maxGen uint32
	signed []hdr
}

// Tree is a generated fork tree together with its parameters.
type Tree struct {
	Setup  []string // reset + setparams + setkeys
	Blocks []*block
	Tips   []*block
	Low    bool // precommit threshold below the safe bound (known-finding region)
	Desc   string
	// trees with parameter changes along the branches (dyn.go)
	Dyn     bool
	Mode    string
	Byz     map[string]bool
	P0      *pset
	Changes int
	// trees of the family "header fields at the integer extremes" (extreme.go)
	Genesis uint32 // genesis height (0 for the other families)
	Extreme int    // accepted headers claiming a maxHeightGenerated above their height
}

func (t *Tree) branchOps(tip *block) []string {
	var rev []string
	for b := tip; b != nil; b = b.parent {
		for i := len(b.post) - 1; i >= 0; i-- {
			rev = append(rev, b.post[i])
		}
		rev = append(rev, b.op)
	}
	ops := append([]string{}, t.Setup...)
	for i := len(rev) - 1; i >= 0; i-- {
		ops = append(ops, rev[i])
	}
	return ops
}

func replay(ops []string) *bftsim.Node {
	var n *bftsim.Node
	for _, op := range ops {
		w := strings.Fields(op)
		if w[0] == "reset" {
			n = bftsim.NewNode(atoi(w[1]), uint32(atoi(w[2])))
			continue
		}
		n.Step(op)
	}
	return n
}

func atoi(s string) int {
	n := 0
	for _, ch := range s {
		n = n*10 + int(ch-'0')
	}
	return n
}

// GenTree builds one fork tree.
func GenTree(rng *rand.Rand, maxBlocks int, allowLow bool) *Tree {
	return genTree(rng, maxBlocks, allowLow, nil)
}

// genTree: x == nil gives the trees of GenTree (same random stream); x != nil the family with
// extreme genesis heights / batch sizes / Byzantine claims (extreme.go).
func genTree(rng *rand.Rand, maxBlocks int, allowLow bool, x *extremes) *Tree {
	nv := 3 + rng.Intn(5)
	batch := nv + rng.Intn(3)
	genesis := uint32(0)
	if x != nil {
		nv, batch, genesis = x.shape(rng, nv, maxBlocks)
	}
	vals := make([]*validator, nv)
	var total uint64
	for i := range vals {
		w := uint64(1)
		if rng.Intn(3) == 0 {
			w = uint64(1 + rng.Intn(4))
		}
		vals[i] = &validator{addr: []byte{byte(0x10 + i)}, weight: w}
		total += w
	}
	// Byzantine set with strictly less than one third of the weight
	var byzW uint64
	for _, i := range rng.Perm(nv) {
		if 3*(byzW+vals[i].weight) < total && rng.Intn(3) > 0 {
			vals[i].byz = true
			byzW += vals[i].weight
		}
	}
	pv := total*2/3 + 1
	pc := total*2/3 + 1
	low := false
	if allowLow && rng.Intn(2) == 0 {
		pc = total/3 + 1 + uint64(rng.Intn(int(total-total/3)))
	}
	if pc > total {
		pc = total
	}
	if byzW+total >= pc+pv {
		low = true
	}
	t := &Tree{Low: low, Desc: fmt.Sprintf("nv=%d W=%d byz=%d pv=%d pc=%d", nv, total, byzW, pv, pc), Genesis: genesis}
	if x != nil {
		t.Desc += fmt.Sprintf(" batch=%d genesis=%d", batch, genesis)
	}
	parts, keys := []string{}, []string{}
	for _, v := range vals {
		parts = append(parts, fmt.Sprintf("%s:%d", corr.Hex(v.addr), v.weight))
		keys = append(keys, corr.Hex(v.addr))
	}
	t.Setup = []string{fmt.Sprintf("reset %d %d", batch, genesis), fmt.Sprintf("setparams %d %d %s", pc, pc, strings.Join(parts, ",")), "setkeys " + strings.Join(keys, ",")}
	nBlocks := 3 + rng.Intn(maxBlocks)
	root := (*block)(nil)
	_ = root
	tips := map[*block]bool{}
	var all []*block
	for tries := 0; len(all) < nBlocks; tries++ {
		if x != nil && tries > 30*nBlocks {
			break // every tip sits at height 2^32-2: no block can follow
		}
		v := vals[rng.Intn(nv)]
		// choose the parent
		var parent *block
		if len(all) > 0 {
			if v.byz || rng.Intn(2) == 0 {
				// Byzantine: any block (or genesis). Honest validators are only required never to sign
				// contradicting headers (checked below), so half of the time they too extend an
				// arbitrary block - a partial or stale view of the tree
				if rng.Intn(8) > 0 {
					parent = all[rng.Intn(len(all))]
					if rng.Intn(2) == 0 {
						parent = all[len(all)-1-rng.Intn(min(len(all), 4))]
					}
				}
			} else {
				// honest: fork choice over the tips it knows (largest (mhp, height))
				for tp := range tips {
					if parent == nil || tp.h.mhp > parent.h.mhp || (tp.h.mhp == parent.h.mhp && tp.h.height > parent.h.height) ||
						(tp.h.mhp == parent.h.mhp && tp.h.height == parent.h.height && tp.id < parent.id) {
						parent = tp
					}
				}
			}
		}
		var ops []string
		height := genesis + 1
		if parent != nil {
			ops = t.branchOps(parent)
			height = parent.h.height + 1
		} else {
			ops = t.Setup
		}
		if height == 0 {
			continue // (extreme family) parent at 2^32-1: cannot happen, the block at 2^32-1 is always rejected
		}
		node := replay(ops)
		mhp, _, _ := node.Heights()
		mhg := v.maxGen
		if v.byz {
			if x != nil && rng.Intn(2) == 0 {
				// a Byzantine validator may claim anything
				mhg = bftsim.PickExtreme(rng, height, 3*batch)
			} else {
				switch rng.Intn(3) {
				case 0:
					mhg = uint32(rng.Intn(int(height) + 1))
				case 1:
					mhg = 0
				}
			}
		}
		h := hdr{height: height, mhg: mhg, mhp: mhp, gen: v.addr}
		ok := true
		if !v.byz {
			// an honest validator never signs a header contradicting one of its own
			for _, e := range v.signed {
				if contradiction.AreDistinctHeadersContradicting(e, h) {
					ok = false
					break
				}
			}
		}
		op := fmt.Sprintf("block %d %s %d %d -", h.height, corr.Hex(h.gen), h.mhg, h.mhp)
		if ok {
			// chain validity: the node rejects headers contradicting the chain
			if node.Step(fmt.Sprintf("contra %d %s %d %d", h.height, corr.Hex(h.gen), h.mhg, h.mhp)) != "false" {
				ok = false
			} else if !strings.HasPrefix(node.Step(op), "ok") {
				ok = false
			}
		}
		node.Close()
		if !ok {
			if rng.Intn(40) == 0 && len(all) > 0 {
				break
			}
			continue
		}
		b := &block{id: len(all), parent: parent, h: h, op: op}
		all = append(all, b)
		if parent != nil {
			delete(tips, parent)
		}
		tips[b] = true
		v.signed = append(v.signed, h)
		if height > v.maxGen {
			v.maxGen = height
		}
		if h.mhg > h.height {
			t.Extreme++
		}
	}
	t.Blocks = all
	for _, b := range all {
		if tips[b] {
			t.Tips = append(t.Tips, b)
		}
	}
	return t
}

func min(a, b int) int {
	if a < b {
		return a
	}
	return b
}

// CheckSafety runs every branch on a real node and compares the finalized prefixes pairwise.
func CheckSafety(t *Tree) (conflict string, finalized int) {
	conflict, finalized, _, _ = checkSafetyPair(t)
	return
}

// checkSafetyPair also returns the indices (in t.Tips) of the two conflicting views.
func checkSafetyPair(t *Tree) (conflict string, finalized int, ti, tj int) {
	type view struct {
		chain []*block // index = height-genesis-1
		fin   uint32
	}
	g := t.Genesis
	var views []view
	for _, tip := range t.Tips {
		n := replay(t.branchOps(tip))
		_, mhpc, _ := n.Heights()
		n.Close()
		var chain []*block
		for b := tip; b != nil; b = b.parent {
			chain = append([]*block{b}, chain...)
		}
		views = append(views, view{chain: chain, fin: mhpc})
		if int(mhpc-g) > finalized {
			finalized = int(mhpc - g) // blocks finalized above genesis
		}
	}
	for i := range views {
		for j := i + 1; j < len(views); j++ {
			m := views[i].fin
			if views[j].fin < m {
				m = views[j].fin
			}
			for h := g + 1; h <= m && h > g; h++ {
				if views[i].chain[h-g-1] != views[j].chain[h-g-1] {
					return fmt.Sprintf("%s: branches of tips #%d and #%d finalize different blocks at height %d (finalized heights %d and %d)", t.Desc, t.Tips[i].id, t.Tips[j].id, h, views[i].fin, views[j].fin), finalized, i, j
				}
			}
		}
	}
	return "", finalized, -1, -1
}

func (prop) Generate(rng *rand.Rand, tier string) []corr.Case {
	n := 40
	if tier == "thorough" {
		n = 1500
	}
	var cases []corr.Case
	for i := 0; i < n; i++ {
		t := GenTree(rng, 30, true)
		for k, tip := range t.Tips {
			if k >= 3 {
				break
			}
			cases = append(cases, corr.Case{Ops: t.branchOps(tip), Tag: "branch:" + t.Class()})
		}
	}
	// trees with parameter changes along the branches; own random stream (see derivedRng)
	drng := derivedRng(cases)
	w := dynWitness()
	for _, tip := range w.Tips {
		cases = append(cases, corr.Case{Ops: w.branchOps(tip), Tag: "witness:" + w.Class()})
	}
	nd := 36
	if tier == "thorough" {
		nd = 500
	}
	for i := 0; i < nd; i++ {
		t := GenDynTree(drng, 30, dynModes[i%len(dynModes)])
		if t == nil {
			continue
		}
		cl := t.Class()
		for k, tip := range t.Tips {
			if k >= 3 {
				break
			}
			cases = append(cases, corr.Case{Ops: t.branchOps(tip), Tag: "branch:" + cl})
		}
	}
	// trees with genesis heights, batch sizes and Byzantine claims at the integer extremes
	// (extreme.go); own random stream, generated last
	xrng := derivedRng(cases)
	nx := 10
	if tier == "thorough" {
		nx = 300
	}
	for i := 0; i < nx; i++ {
		t := GenExtremeTree(xrng, 24)
		cl := t.Class() + "+extremes"
		for k, tip := range t.tipsExtremeFirst() {
			if k >= 3 {
				break
			}
			cases = append(cases, corr.Case{Ops: t.branchOps(tip), Tag: "branch:" + cl})
		}
	}
	return cases
}

func (prop) RunImpl(c corr.Case) ([]string, []corr.Fail) {
	var node *bftsim.Node
	out := make([]string, 0, len(c.Ops))
	var fails []corr.Fail
	for i, op := range c.Ops {
		w := strings.Fields(op)
		if w[0] == "reset" {
			if node != nil {
				node.Close()
			}
			node = bftsim.NewNode(atoi(w[1]), uint32(atoi(w[2])))
			out = append(out, "ok")
			continue
		}
		o := node.Step(op)
		if strings.HasPrefix(o, "panic") {
			fails = append(fails, corr.Fail{Sig: "bft-panic", Detail: op + ": " + o, Op: i})
		}
		out = append(out, o)
	}
	if node != nil {
		node.Close()
	}
	// the votes implied by every single header of the branch (bftsim/votes.go): at most the generator's
	// weight per height, nothing at or below its maxHeightGenerated, nothing when maxHeightGenerated >= height
	fails = append(fails, bftsim.CheckVotes(c.Ops, out)...)
	return out, fails
}

// Classify: the class of the tree the branch belongs to (which theorem covers it: static-ok,
// static-low, dyn-bounded, dyn-unbounded — carried by the tag) and what the branch exercised:
// finality advanced, or (dynamic trees) parameters changed after the first block without finality.
func (prop) Classify(c corr.Case, out []string) string {
	cov := ""
	if i := strings.Index(c.Tag, ":"); i >= 0 && (strings.HasPrefix(c.Tag, "branch:") || strings.HasPrefix(c.Tag, "witness:")) {
		cov = c.Tag[i+1:] + "/"
	}
	genesis := "0"
	if w := strings.Fields(c.Ops[0]); len(w) > 2 {
		genesis = w[2]
	}
	// the last op that dumps the store
	for i := len(out) - 1; i >= 0; i-- {
		f := strings.Fields(out[i])
		if len(f) > 2 && f[0] == "ok" {
			if f[2] != genesis {
				return cov + "finalized"
			}
			break
		}
	}
	seenBlock := false
	for i, op := range c.Ops {
		if strings.HasPrefix(op, "block ") && strings.HasPrefix(out[i], "ok") {
			seenBlock = true
		}
		if seenBlock && strings.HasPrefix(op, "setparams ") && strings.HasPrefix(out[i], "ok") {
			return cov + "params-changed"
		}
	}
	return ""
}

// the witness of the known finding (DESIGN.md C01): 4 validators of weight 1, precommit threshold 2
// (= floor(4/3)+1, accepted by SetBFTParameters), only z Byzantine.
func knownWitness() *Tree {
	t := &Tree{Low: true, Desc: "witness nv=4 W=4 byz=1 pv=3 pc=2"}
	t.Setup = []string{"reset 4 0", "setparams 2 2 0a:1,0b:1,0c:1,0e:1", "setkeys 0a,0b,0c,0e"}
	mk := func(parent *block, id int, h uint32, g byte, mhg, mhp uint32) *block {
		return &block{id: id, parent: parent, h: hdr{height: h, gen: []byte{g}, mhg: mhg, mhp: mhp},
			op: fmt.Sprintf("block %d %02x %d %d -", h, g, mhg, mhp)}
	}
	gensA, mhgA := []byte{0x0a, 0x0e, 0x0b, 0x0e, 0x0a}, []uint32{0, 0, 0, 2, 1}
	gensB, mhgB := []byte{0x0c, 0x0e, 0x0c, 0x0e, 0x0b, 0x0c, 0x0e, 0x0b}, []uint32{0, 0, 1, 2, 3, 3, 4, 5}
	build := func(gens []byte, mhgs []uint32, base int) *block {
		var tip *block
		for i := range gens {
			var ops []string
			if tip != nil {
				ops = t.branchOps(tip)
			} else {
				ops = t.Setup
			}
			n := replay(ops)
			mhp, _, _ := n.Heights()
			n.Close()
			tip = mk(tip, base+i, uint32(i+1), gens[i], mhgs[i], mhp)
			t.Blocks = append(t.Blocks, tip)
		}
		return tip
	}
	t.Tips = []*block{build(gensA, mhgA, 0), build(gensB, mhgB, 100)}
	return t
}

func (prop) Extra(rng *rand.Rand, tier string) corr.ExtraResult {
	n := 150
	if tier == "thorough" {
		n = 6000
	}
	res := corr.ExtraResult{Notes: map[string]any{}}
	withFinality, lowTrees, forks := 0, 0, 0
	report := func(t *Tree, conflict string) {
		res.Fails = append(res.Fails, corr.Fail{Sig: conflictSig(t.Class()), Detail: conflict, Op: -1})
	}
	// the recorded witness first
	if c, _ := CheckSafety(knownWitness()); c != "" {
		report(knownWitness(), c)
	}
	for i := 0; i < n; i++ {
		t := GenTree(rng, 40, i%3 == 0)
		res.Evaluations++
		if t.Low {
			lowTrees++
		}
		if len(t.Tips) > 1 {
			forks++
		}
		c, fin := CheckSafety(t)
		if fin > 0 {
			withFinality++
		}
		if c != "" && len(res.Fails) < 10 {
			report(t, c)
		}
		if i < 2 {
			res.Samples = append(res.Samples, t.Desc+" blocks="+fmt.Sprint(len(t.Blocks))+" tips="+fmt.Sprint(len(t.Tips)))
		}
	}
	res.Notes["trees_with_finality"] = withFinality
	res.Notes["trees_with_forks"] = forks
	res.Notes["trees_with_low_threshold"] = lowTrees
	extraDyn(rng, tier, &res)
	extraExtreme(rng, tier, &res)
	return res
}

// extraDyn explores trees with parameter changes along the branches (dyn.go) and records, per class
// of tree (which theorem covers it), how many trees were checked, had forks, parameter changes,
// finality, and conflicting finalization.
func extraDyn(rng *rand.Rand, tier string, res *corr.ExtraResult) {
	n := 150
	if tier == "thorough" {
		n = 3000
	}
	type stat struct{ Trees, Forks, Changed, ChangeOnCommonPrefix, ChangeAfterFork, Finality, Conflicts int }
	stats := map[string]*stat{}
	modeConf := map[string]int{}
	byMode := map[string]int{}
	get := func(k string) *stat {
		if stats[k] == nil {
			stats[k] = &stat{}
		}
		return stats[k]
	}
	reported := map[string]int{}
	check := func(t *Tree) {
		res.Evaluations++
		cl := t.Class()
		st := get(cl)
		st.Trees++
		if len(t.Tips) > 1 {
			st.Forks++
		}
		if t.Changes > 0 {
			st.Changed++
		}
		common, after := changePlaces(t)
		if common {
			st.ChangeOnCommonPrefix++
		}
		if after {
			st.ChangeAfterFork++
		}
		c, fin, ti, tj := checkSafetyPair(t)
		if fin > 0 {
			st.Finality++
		}
		byMode[t.Mode+"/"+cl]++
		if c != "" {
			st.Conflicts++
			modeConf[t.Mode]++
			sig := conflictSig(cl)
			if reported[sig] < 3 {
				reported[sig]++
				detail := c
				if v := boundViolation(t); v != "" {
					detail += "; bounded-change condition violated by " + v
				}
				detail += "; branches: "
				for _, tip := range []*block{t.Tips[ti], t.Tips[tj]} {
					detail += fmt.Sprintf("[#%d: %s] ", tip.id, strings.Join(t.branchOps(tip), "; "))
				}
				res.Fails = append(res.Fails, corr.Fail{Sig: sig, Detail: detail, Op: -1})
			}
		}
	}
	// the recorded witness of `finality-conflict:validator-set-replaced` first (always generated)
	check(dynWitness())
	for i := 0; i < n; i++ {
		t := GenDynTree(rng, 40, dynModes[i%len(dynModes)])
		if t == nil {
			continue
		}
		check(t)
		if i < 3 {
			res.Samples = append(res.Samples, t.Desc+" class="+t.Class()+" blocks="+fmt.Sprint(len(t.Blocks))+" tips="+fmt.Sprint(len(t.Tips)))
		}
	}
	for k, st := range stats {
		res.Notes["dyn_class_"+k] = *st
	}
	res.Notes["dyn_conflicts_by_mode"] = modeConf
	res.Notes["dyn_trees_by_mode_and_class"] = byMode
}

// changePlaces: does the tree have a parameter change on a common prefix (a changing block with at
// least two tips above it: both branches see the change) / after a fork (a changing block that some
// tip does not descend from: the branches disagree on the parameters)?
func changePlaces(t *Tree) (common, afterFork bool) {
	for _, b := range t.Blocks {
		if len(b.post) == 0 {
			continue
		}
		above := 0
		for _, tip := range t.Tips {
			if isAncestorOrSelf(b, tip) {
				above++
			}
		}
		if above >= 2 {
			common = true
		}
		if above < len(t.Tips) {
			afterFork = true
		}
	}
	return
}
