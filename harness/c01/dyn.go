// Dynamic BFT parameters (LIP-0058) inside the fork trees of C01: validator-set / weight / threshold
// changes (`setparams` ops executed while a block is processed, in force from the next height) occur
// ALONG the branches — on the common prefix and after the fork. The trees are classified by the
// theorem that covers them (Props/C01_More.lean):
//
//	dyn-bounded    every pair of conflicting blocks (lower block with parameters P1, block at least as
//	               high with parameters P2) satisfies the bounded-change condition `C01DynBound`
//	               byzW(P2) + W(P1) + gain(P1→P2) < τpc(P1) + τpv(P2)
//	               → `C01_dyn_finality_safety_partial` applies: a conflict is a real violation
//	dyn-unbounded  some pair violates it (e.g. the validator set is replaced after the fork)
//	               → conflicting finalization is possible with nobody misbehaving
//	               (`C01_dyn_cross_condition_necessary`): known finding
//	               `finality-conflict:validator-set-replaced`
package c01

import (
	"fmt"
	"hash/fnv"
	"math/rand"
	"sort"
	"strings"

	"github.com/LiskHQ/lisk-engine/pkg/consensus/contradiction"

	"verifharness/corr"
)

// pset is one BFT parameter set (validators in the order given to SetBFTParameters).
type pset struct {
	addrs [][]byte
	w     map[string]uint64
	pc    uint64
}

func (p *pset) total() uint64 {
	var t uint64
	for _, a := range p.addrs {
		t += p.w[string(a)]
	}
	return t
}

// pv is the prevote threshold SetBFTParameters computes: floor(2W/3)+1.
func (p *pset) pv() uint64 { return p.total()*2/3 + 1 }

func (p *pset) byzWeight(byz map[string]bool) uint64 {
	var t uint64
	for _, a := range p.addrs {
		if byz[string(a)] {
			t += p.w[string(a)]
		}
	}
	return t
}

func (p *pset) has(a []byte) bool { _, ok := p.w[string(a)]; return ok }

func (p *pset) clone() *pset {
	q := &pset{pc: p.pc, w: map[string]uint64{}}
	for _, a := range p.addrs {
		q.addrs = append(q.addrs, a)
		q.w[string(a)] = p.w[string(a)]
	}
	return q
}

func (p *pset) String() string {
	parts := []string{}
	for _, a := range p.addrs {
		parts = append(parts, fmt.Sprintf("%s:%d", corr.Hex(a), p.w[string(a)]))
	}
	return fmt.Sprintf("pc=%d[%s]", p.pc, strings.Join(parts, ","))
}

func (p *pset) ops() []string {
	parts, keys := []string{}, []string{}
	for _, a := range p.addrs {
		parts = append(parts, fmt.Sprintf("%s:%d", corr.Hex(a), p.w[string(a)]))
		keys = append(keys, corr.Hex(a))
	}
	return []string{fmt.Sprintf("setparams %d %d %s", p.pc, p.pc, strings.Join(parts, ",")), "setkeys " + strings.Join(keys, ",")}
}

// gain is the weight validators hold in p2 beyond what they hold in p1 (new validators count fully):
// `BFTSpecDyn.gain`.
func gain(p1, p2 *pset) uint64 {
	var g uint64
	for _, a := range p2.addrs {
		w2, w1 := p2.w[string(a)], p1.w[string(a)]
		if w2 > w1 {
			g += w2 - w1
		}
	}
	return g
}

// DynBound is `C01DynBound byz P1 P2` of Props/C01_More.lean:
// byzWeight(P2) + W(P1) + gain(P1→P2) < τpc(P1) + τpv(P2).
func DynBound(byz map[string]bool, p1, p2 *pset) bool {
	return p2.byzWeight(byz)+p1.total()+gain(p1, p2) < p1.pc+p2.pv()
}

// staticOK: Byzantine weight below one third and (H-thr) for the set itself.
func staticOK(byz map[string]bool, p *pset) bool {
	if len(p.addrs) == 0 {
		return false
	}
	W := p.total()
	return 3*p.byzWeight(byz) < W && p.pc >= W/3+1 && p.pc <= W && DynBound(byz, p, p)
}

func isAncestorOrSelf(a, b *block) bool {
	for x := b; x != nil; x = x.parent {
		if x == a {
			return true
		}
	}
	return false
}

// boundViolation returns a description of a pair of conflicting blocks of the tree whose parameters
// violate the bounded-change condition ("" if there is none). `in` of a block = the parameters in force
// for it (set by its parent, or the genesis parameters).
func boundViolation(t *Tree) string {
	for _, e := range t.Blocks {
		for _, n := range t.Blocks {
			if e == n || e.h.height > n.h.height || isAncestorOrSelf(e, n) {
				continue
			}
			// e (lower or equal) and n conflict
			if !DynBound(t.Byz, e.in, n.in) {
				return fmt.Sprintf("blocks #%d (height %d, %s) and #%d (height %d, %s)", e.id, e.h.height, e.in, n.id, n.h.height, n.in)
			}
		}
	}
	return ""
}

// okAgainstTree: would a new block under `parent` with parameters `in` keep the condition against
// every existing conflicting block?
func okAgainstTree(t *Tree, all []*block, parent *block, in *pset) bool {
	h := uint32(1)
	if parent != nil {
		h = parent.h.height + 1
	}
	for _, e := range all {
		if parent != nil && isAncestorOrSelf(e, parent) {
			continue
		}
		if e.h.height <= h && !DynBound(t.Byz, e.in, in) {
			return false
		}
		if h <= e.h.height && !DynBound(t.Byz, in, e.in) {
			return false
		}
	}
	return true
}

type dynVal struct {
	addr   []byte
	byz    bool
	maxGen uint32
	signed []hdr
}

// mutate proposes the parameters a block installs for the next height.
func mutate(rng *rand.Rand, mode string, byz map[string]bool, pool []*dynVal, cur *pset, batch int) *pset {
	p := cur.clone()
	outsiders := []*dynVal{}
	for _, v := range pool {
		if !p.has(v.addr) {
			outsiders = append(outsiders, v)
		}
	}
	stdPc := func(q *pset) {
		W := q.total()
		q.pc = W*2/3 + 1
		if q.pc > W {
			q.pc = W
		}
	}
	minPc := func(q *pset) {
		// the smallest threshold accepted by SetBFTParameters that keeps (H-thr)
		W := q.total()
		for pc := W/3 + 1; pc <= W; pc++ {
			q.pc = pc
			if DynBound(byz, q, q) {
				return
			}
		}
	}
	remove := func(q *pset, k int) {
		delete(q.w, string(q.addrs[k]))
		q.addrs = append(q.addrs[:k:k], q.addrs[k+1:]...)
	}
	switch mode {
	case "replace":
		// complete or large replacement of the validator set
		if len(outsiders) == 0 {
			return nil
		}
		keep := 0
		if rng.Intn(3) == 0 {
			keep = 1
		}
		for len(p.addrs) > keep {
			remove(p, rng.Intn(len(p.addrs)))
		}
		rng.Shuffle(len(outsiders), func(i, j int) { outsiders[i], outsiders[j] = outsiders[j], outsiders[i] })
		n := 1 + rng.Intn(len(outsiders))
		for i := 0; i < n && len(p.addrs) < batch; i++ {
			p.addrs = append(p.addrs, outsiders[i].addr)
			p.w[string(outsiders[i].addr)] = uint64(1 + rng.Intn(2))
		}
		stdPc(p)
	case "edge-in", "edge-out":
		// a single validator joins or gains weight, or loses weight / leaves, by the largest amount
		// inside (edge-in) or the smallest amount outside (edge-out) the condition against the current
		// set, in both directions
		q := cur.clone()
		var a []byte
		up := rng.Intn(3) > 0
		if up && len(outsiders) > 0 && len(q.addrs) < batch && rng.Intn(3) > 0 {
			a = outsiders[rng.Intn(len(outsiders))].addr
			q.addrs = append(q.addrs, a)
		} else {
			a = q.addrs[rng.Intn(len(q.addrs))]
		}
		base := q.w[string(a)]
		apply := func(d uint64) *pset {
			r := q.clone()
			if up {
				r.w[string(a)] = base + d
			} else if d >= base {
				if len(r.addrs) <= 1 {
					return nil
				}
				for k := range r.addrs {
					if string(r.addrs[k]) == string(a) {
						remove(r, k)
						break
					}
				}
			} else {
				r.w[string(a)] = base - d
			}
			stdPc(r)
			if !staticOK(byz, r) {
				return nil
			}
			return r
		}
		maxD := uint64(12)
		if !up {
			maxD = base
		}
		var best, firstBad *pset
		for d := uint64(1); d <= maxD; d++ {
			r := apply(d)
			if r == nil {
				continue
			}
			if DynBound(byz, cur, r) && DynBound(byz, r, cur) {
				best = r
			} else if firstBad == nil {
				firstBad = r
			}
		}
		p = best
		if mode == "edge-out" {
			p = firstBad
		}
		if p == nil {
			return nil
		}
	default:
		// one small step: weight shift, join, leave or threshold change
		switch rng.Intn(5) {
		case 0: // weight +1
			a := p.addrs[rng.Intn(len(p.addrs))]
			p.w[string(a)]++
			stdPc(p)
		case 1: // weight -1
			a := p.addrs[rng.Intn(len(p.addrs))]
			if p.w[string(a)] > 1 {
				p.w[string(a)]--
			}
			stdPc(p)
		case 2: // join
			if len(outsiders) == 0 || len(p.addrs) >= batch {
				return nil
			}
			v := outsiders[rng.Intn(len(outsiders))]
			p.addrs = append(p.addrs, v.addr)
			p.w[string(v.addr)] = uint64(1 + rng.Intn(3))
			stdPc(p)
		case 3: // leave
			if len(p.addrs) <= 2 {
				return nil
			}
			remove(p, rng.Intn(len(p.addrs)))
			stdPc(p)
		default: // threshold only
			if rng.Intn(2) == 0 {
				minPc(p)
			} else {
				W := p.total()
				p.pc = W*2/3 + 1 + uint64(rng.Intn(int(W-W*2/3)))
				if p.pc > W {
					p.pc = W
				}
			}
		}
	}
	if rng.Intn(4) == 0 {
		rng.Shuffle(len(p.addrs), func(i, j int) { p.addrs[i], p.addrs[j] = p.addrs[j], p.addrs[i] })
	}
	if !staticOK(byz, p) {
		return nil
	}
	return p
}

// GenDynTree builds one fork tree with parameter changes along the branches.
//
//	mode "bounded"  small changes; every block keeps the bounded-change condition against all
//	                conflicting blocks (enforced) → class dyn-bounded
//	mode "edge-in"  single joins / weight gains with the largest weight inside the condition (enforced)
//	mode "edge-out" the same with the smallest weight outside the condition (not enforced)
//	mode "replace"  complete or large replacement of the validator set (not enforced); validators
//	                prefer the tips on which they hold BFT weight (partial views)
//
// Every parameter set has Byzantine weight < 1/3 and satisfies (H-thr) on its own; honest validators
// report their largest generated height and never sign contradicting headers.
func GenDynTree(rng *rand.Rand, maxBlocks int, mode string) *Tree {
	np := 5 + rng.Intn(4)
	batch := np + rng.Intn(3)
	pool := make([]*dynVal, np)
	for i := range pool {
		pool[i] = &dynVal{addr: []byte{byte(0x10 + i)}}
	}
	t := &Tree{Dyn: true, Byz: map[string]bool{}, Mode: mode}
	// genesis parameters
	var p0 *pset
	for tries := 0; tries < 20 && p0 == nil; tries++ {
		for _, v := range pool {
			v.byz = false
		}
		t.Byz = map[string]bool{}
		nv := 3 + rng.Intn(np-2)
		if mode == "replace" && nv > np-2 {
			nv = np - 2
		}
		p := &pset{w: map[string]uint64{}}
		for _, i := range rng.Perm(np)[:nv] {
			w := uint64(1)
			if rng.Intn(3) == 0 {
				w = uint64(1 + rng.Intn(3))
			}
			p.addrs = append(p.addrs, pool[i].addr)
			p.w[string(pool[i].addr)] = w
		}
		W := p.total()
		var byzW uint64
		for _, i := range rng.Perm(np) {
			w := p.w[string(pool[i].addr)] // 0 for outsiders: Byzantine standby generators are free
			if 3*(byzW+w) < W && rng.Intn(3) == 0 {
				pool[i].byz = true
				t.Byz[string(pool[i].addr)] = true
				byzW += w
			}
		}
		p.pc = W*2/3 + 1
		if p.pc > W {
			p.pc = W
		}
		if staticOK(t.Byz, p) {
			p0 = p
		}
	}
	if p0 == nil {
		return nil
	}
	t.P0 = p0
	t.Setup = append([]string{fmt.Sprintf("reset %d 0", batch)}, p0.ops()...)
	enforce := mode == "bounded" || mode == "edge-in"
	nBlocks := 6 + rng.Intn(maxBlocks)
	tips := map[*block]bool{}
	var all []*block
	changes, replaced := 0, false
	parOf := func(b *block) *pset {
		if b == nil {
			return p0
		}
		return b.par
	}
	for guard := 0; len(all) < nBlocks && guard < 6*nBlocks; guard++ {
		v := pool[rng.Intn(np)]
		var parent *block
		if len(all) > 0 {
			if v.byz || rng.Intn(3) == 0 {
				if rng.Intn(8) > 0 {
					parent = all[rng.Intn(len(all))]
					if rng.Intn(2) == 0 {
						parent = all[len(all)-1-rng.Intn(min(len(all), 4))]
					}
				}
			} else {
				// honest: fork choice over the tips it knows; with parameter changes a validator
				// prefers the tips on which it is an active validator (the branch it follows)
				better := func(a, b *block) bool {
					return b == nil || a.h.mhp > b.h.mhp || (a.h.mhp == b.h.mhp && a.h.height > b.h.height) ||
						(a.h.mhp == b.h.mhp && a.h.height == b.h.height && a.id < b.id)
				}
				var home, any *block
				ordered := make([]*block, 0, len(tips))
				for tp := range tips {
					ordered = append(ordered, tp)
				}
				sort.Slice(ordered, func(i, j int) bool { return ordered[i].id < ordered[j].id })
				for _, tp := range ordered {
					if better(tp, any) {
						any = tp
					}
					if tp.par.has(v.addr) && better(tp, home) {
						home = tp
					}
				}
				parent = any
				if home != nil && (mode == "replace" || rng.Intn(2) == 0) {
					parent = home
				}
			}
		}
		in := parOf(parent)
		if !in.has(v.addr) && rng.Intn(4) > 0 {
			continue // mostly validators of the branch generate
		}
		if enforce && !okAgainstTree(t, all, parent, in) {
			continue
		}
		var ops []string
		height := uint32(1)
		if parent != nil {
			ops = t.branchOps(parent)
			height = parent.h.height + 1
		} else {
			ops = t.Setup
		}
		node := replay(ops)
		mhp, _, _ := node.Heights()
		mhg := v.maxGen
		if v.byz {
			switch rng.Intn(3) {
			case 0:
				mhg = uint32(rng.Intn(int(height) + 1))
			case 1:
				mhg = 0
			}
		}
		h := hdr{height: height, mhg: mhg, mhp: mhp, gen: v.addr}
		ok := true
		if !v.byz {
			for _, e := range v.signed {
				if contradiction.AreDistinctHeadersContradicting(e, h) {
					ok = false
					break
				}
			}
		}
		op := fmt.Sprintf("block %d %s %d %d -", h.height, corr.Hex(h.gen), h.mhg, h.mhp)
		if ok {
			if node.Step(fmt.Sprintf("contra %d %s %d %d", h.height, corr.Hex(h.gen), h.mhg, h.mhp)) != "false" {
				ok = false
			} else if !strings.HasPrefix(node.Step(op), "ok") {
				ok = false
			}
		}
		if !ok {
			node.Close()
			continue
		}
		b := &block{id: len(all), parent: parent, h: h, op: op, in: in, par: in}
		// a parameter change executed while this block is processed
		wantChange := rng.Intn(5) == 0
		if mode == "replace" {
			// replace once, on a block that is (or will be) off the main line, some blocks into the tree
			wantChange = !replaced && len(all) >= 2 && rng.Intn(3) == 0
		}
		if wantChange {
			if q := mutate(rng, mode, t.Byz, pool, in, batch); q != nil {
				accept := true
				if enforce {
					// children (and later descendants) of b must keep the condition against the blocks
					// they will conflict with
					for _, e := range all {
						if isAncestorOrSelf(e, b) {
							continue
						}
						if !DynBound(t.Byz, e.in, q) || (e.h.height > height && !DynBound(t.Byz, q, e.in)) {
							accept = false
							break
						}
					}
				}
				if accept {
					okAll := true
					for _, o := range q.ops() {
						if !strings.HasPrefix(node.Step(o), "ok") {
							okAll = false
						}
					}
					if okAll {
						b.post = q.ops()
						b.par = q
						changes++
						if mode == "replace" {
							replaced = true
						}
					}
				}
			}
		}
		node.Close()
		all = append(all, b)
		if parent != nil {
			delete(tips, parent)
		}
		tips[b] = true
		v.signed = append(v.signed, h)
		if height > v.maxGen {
			v.maxGen = height
		}
	}
	t.Blocks = all
	for _, b := range all {
		if tips[b] {
			t.Tips = append(t.Tips, b)
		}
	}
	t.Changes = changes
	t.Desc = fmt.Sprintf("dyn mode=%s pool=%d byz=%s P0=%s changes=%d", mode, np, byzList(t.Byz), p0, changes)
	return t
}

func byzList(byz map[string]bool) string {
	l := []string{}
	for a := range byz {
		l = append(l, corr.Hex([]byte(a)))
	}
	sort.Strings(l)
	if len(l) == 0 {
		return "-"
	}
	return strings.Join(l, ",")
}

// Class names the theorem that covers the tree.
func (t *Tree) Class() string {
	if !t.Dyn {
		if t.Low {
			return "static-low"
		}
		return "static-ok"
	}
	if boundViolation(t) == "" {
		return "dyn-bounded"
	}
	return "dyn-unbounded"
}

// conflictSig is the failure signature of a finality conflict in a tree of the given class.
func conflictSig(class string) string {
	switch class {
	case "static-low":
		return "finality-conflict:low-precommit-threshold"
	case "dyn-bounded":
		return "finality-conflict:dynamic-bounded"
	case "dyn-unbounded":
		return "finality-conflict:validator-set-replaced"
	}
	return "finality-conflict"
}

// dynWitness is the recorded witness of the known finding `finality-conflict:validator-set-replaced`
// (Lean: C01_dyn_cross_condition_necessary, C01_dyn_model_agrees_on_examples): validator a alone for
// heights 1-2, validator d alone from height 3 on (batch size 2). View A: a forges two blocks and
// finalizes height 1. View B: a generator without BFT weight forges two other blocks (the second one
// installs {d}), then d forges two blocks and finalizes height 3. Nobody contradicts itself.
func dynWitness() *Tree {
	a, d, s := []byte{0x0a}, []byte{0x0d}, []byte{0x05}
	pa := &pset{addrs: [][]byte{a}, w: map[string]uint64{string(a): 1}, pc: 1}
	pd := &pset{addrs: [][]byte{d}, w: map[string]uint64{string(d): 1}, pc: 1}
	t := &Tree{Dyn: true, Byz: map[string]bool{}, Mode: "witness", P0: pa,
		Desc: "witness validator-set-replaced: {a} for heights 1-2, {d} from height 3"}
	t.Setup = append([]string{"reset 2 0"}, pa.ops()...)
	mk := func(parent *block, id int, h uint32, g []byte, mhg, mhp uint32, par *pset) *block {
		in := pa
		if parent != nil {
			in = parent.par
		}
		b := &block{id: id, parent: parent, h: hdr{height: h, gen: g, mhg: mhg, mhp: mhp},
			op: fmt.Sprintf("block %d %s %d %d -", h, corr.Hex(g), mhg, mhp), in: in, par: in}
		if par != nil {
			b.par = par
			b.post = par.ops()
		}
		t.Blocks = append(t.Blocks, b)
		return b
	}
	a1 := mk(nil, 0, 1, a, 0, 0, nil)
	a2 := mk(a1, 1, 2, a, 1, 1, nil)
	s1 := mk(nil, 2, 1, s, 0, 0, nil)
	s2 := mk(s1, 3, 2, s, 1, 0, pd)
	d3 := mk(s2, 4, 3, d, 0, 0, nil)
	d4 := mk(d3, 5, 4, d, 3, 3, nil)
	t.Tips = []*block{a2, d4}
	t.Changes = 1
	return t
}

// dynModes is the schedule of the dynamic families: (a) bounded, (b) replacement, (c) edges.
var dynModes = []string{"bounded", "replace", "edge-in", "bounded", "replace", "edge-out"}

// derivedRng gives the dynamic families of `Generate` their own deterministic random stream (a
// function of the cases generated so far, hence of the seed) so that the stream of the existing
// families — shared with `Extra` — is left untouched.
func derivedRng(cases []corr.Case) *rand.Rand {
	h := fnv.New64a()
	for _, c := range cases {
		for _, op := range c.Ops {
			h.Write([]byte(op))
			h.Write([]byte{'\n'})
		}
	}
	return rand.New(rand.NewSource(int64(h.Sum64() >> 1)))
}
