// Fork trees with header fields and heights at the integer extremes.
//
// The trees of GenTree start at genesis height 0, use batch sizes next to the number of validators and
// let Byzantine validators claim a maxHeightGenerated in [0, height]. Here (same simulator, genTree
// with x != nil) the genesis height is 2^32-k, 2^31-k, 0 or 1 (bftsim.ExtremeGenesis), the batch size
// is the number of validators (shortest window) or much longer than the tree, and a Byzantine validator
// claims ANY maxHeightGenerated half of the time (bftsim.PickExtreme: 0, h-1, h, h+1, the edges of the
// vote window, 2^31±1, 2^32-2, 2^32-1 — the last two more often). Honest validators keep reporting
// the largest height they generated. Height and maxHeightPrevoted of a header are fixed by the chain
// (pkg/consensus/verify.go), so maxHeightGenerated is the field a Byzantine generator is free in.
//
// Checked on every branch of every tree: pairwise compatible finalized prefixes (CheckSafety) and the
// vote-rule oracle bftsim.CheckVotes (what a single header may add to the vote store).
package c01

import (
	"fmt"
	"math/rand"
	"sort"
	"strings"

	"verifharness/bftsim"
	"verifharness/corr"
)

// extremes switches genTree to the extreme family.
type extremes struct{}

// shape draws the number of validators, the batch size and the genesis height.
func (*extremes) shape(rng *rand.Rand, nv, maxBlocks int) (int, int, uint32) {
	if nv < 4 && rng.Intn(3) > 0 {
		nv = 4 + rng.Intn(4) // three validators of weight 1 leave no room for a Byzantine one
	}
	batch := nv
	switch rng.Intn(4) {
	case 0:
		batch = nv + rng.Intn(3)
	case 1:
		batch = 20 + rng.Intn(84) // vote window longer than the tree
	}
	return nv, batch, bftsim.ExtremeGenesis(rng, maxBlocks/2+2, batch)
}

// GenExtremeTree builds one fork tree of the extreme family (standard and low precommit thresholds).
func GenExtremeTree(rng *rand.Rand, maxBlocks int) *Tree {
	return genTree(rng, maxBlocks, rng.Intn(4) == 0, &extremes{})
}

// tipsExtremeFirst: the tips whose branch carries most extreme claims first (stable).
func (t *Tree) tipsExtremeFirst() []*block {
	count := func(tip *block) int {
		n := 0
		for b := tip; b != nil; b = b.parent {
			if b.h.mhg > b.h.height {
				n++
			}
		}
		return n
	}
	tips := append([]*block{}, t.Tips...)
	sort.SliceStable(tips, func(i, j int) bool { return count(tips[i]) > count(tips[j]) })
	return tips
}

// runBranch executes one branch on a fresh real node and applies the vote-rule oracle.
func runBranch(ops []string) []corr.Fail {
	var node *bftsim.Node
	out := make([]string, 0, len(ops))
	for _, op := range ops {
		w := strings.Fields(op)
		if w[0] == "reset" {
			if node != nil {
				node.Close()
			}
			node = bftsim.NewNode(atoi(w[1]), uint32(atoi(w[2])))
			out = append(out, "ok")
			continue
		}
		out = append(out, node.Step(op))
	}
	if node != nil {
		node.Close()
	}
	return bftsim.CheckVotes(ops, out)
}

// extraExtreme explores trees of the extreme family: finalized prefixes of all branches pairwise
// compatible, and the vote-rule oracle on every branch of every tree (Generate only turns three tips
// per tree into correspondence cases).
func extraExtreme(rng *rand.Rand, tier string, res *corr.ExtraResult) {
	n := 24
	if tier == "thorough" {
		n = 800
	}
	type stat struct{ Trees, Forks, Finality, NearTop, NearMid, ExtremeClaims, TreesWithExtremeClaims, MaxUint32Claims, Conflicts, VoteRuleFailures int }
	var st stat
	reported := map[string]int{}
	for i := 0; i < n; i++ {
		t := GenExtremeTree(rng, 30)
		res.Evaluations++
		st.Trees++
		if len(t.Tips) > 1 {
			st.Forks++
		}
		switch {
		case t.Genesis >= 1<<32-1-400:
			st.NearTop++
		case t.Genesis >= 1<<31-400 && t.Genesis <= 1<<31+400:
			st.NearMid++
		}
		st.ExtremeClaims += t.Extreme
		if t.Extreme > 0 {
			st.TreesWithExtremeClaims++
		}
		for _, b := range t.Blocks {
			if b.h.mhg == 1<<32-1 {
				st.MaxUint32Claims++
			}
		}
		c, fin, ti, tj := checkSafetyPair(t)
		if fin > 0 {
			st.Finality++
		}
		if c != "" {
			st.Conflicts++
			sig := conflictSig(t.Class())
			if reported[sig] < 2 {
				reported[sig]++
				detail := c + "; branches: "
				for _, tip := range []*block{t.Tips[ti], t.Tips[tj]} {
					detail += fmt.Sprintf("[#%d: %s] ", tip.id, strings.Join(t.branchOps(tip), "; "))
				}
				res.Fails = append(res.Fails, corr.Fail{Sig: sig, Detail: detail, Op: -1})
			}
		}
		for _, tip := range t.Tips {
			ops := t.branchOps(tip)
			for _, f := range runBranch(ops) {
				st.VoteRuleFailures++
				if reported[f.Sig] < 2 {
					reported[f.Sig]++
					f.Detail += "; tree: " + t.Desc + "; branch: " + strings.Join(ops, "; ")
					f.Op = -1
					res.Fails = append(res.Fails, f)
				}
			}
		}
		if i < 2 {
			res.Samples = append(res.Samples, t.Desc+" class="+t.Class()+"+extremes blocks="+fmt.Sprint(len(t.Blocks))+" tips="+fmt.Sprint(len(t.Tips))+" extreme-claims="+fmt.Sprint(t.Extreme))
		}
	}
	res.Notes["extreme_trees"] = st
}
