package c01

import "testing"

func mkSet(pc uint64, vs ...interface{}) *pset {
	p := &pset{w: map[string]uint64{}, pc: pc}
	for i := 0; i < len(vs); i += 2 {
		a := []byte{byte(vs[i].(int))}
		p.addrs = append(p.addrs, a)
		p.w[string(a)] = uint64(vs[i+1].(int))
	}
	return p
}

// The instances of `C01DynBound` evaluated in Lean (Props/C01_More.lean): C01_dyn_example (all four
// pairs of {V0, V1} hold with byz = {0e}, gain V0→V1 = 1), C01_dyn_cross_condition_necessary ({a} → {d}
// fails, each set alone holds), and the static known finding (W = 4, pc = 2, byz weight 1 fails).
func TestDynBoundMatchesLeanInstances(t *testing.T) {
	byz := map[string]bool{string([]byte{0x0e}): true}
	v0 := mkSet(3, 0x0a, 1, 0x0b, 1, 0x0c, 1, 0x0e, 1)
	v1 := mkSet(4, 0x0a, 2, 0x0b, 1, 0x0c, 1, 0x0e, 1)
	if gain(v0, v1) != 1 || gain(v1, v0) != 0 {
		t.Fatalf("gain %d %d", gain(v0, v1), gain(v1, v0))
	}
	for _, pr := range [][2]*pset{{v0, v0}, {v0, v1}, {v1, v0}, {v1, v1}} {
		if !DynBound(byz, pr[0], pr[1]) {
			t.Fatalf("bound must hold for %s %s", pr[0], pr[1])
		}
	}
	none := map[string]bool{}
	a, d := mkSet(1, 0x0a, 1), mkSet(1, 0x0d, 1)
	if !DynBound(none, a, a) || !DynBound(none, d, d) || DynBound(none, a, d) || DynBound(none, d, a) {
		t.Fatal("{a} / {d}")
	}
	low := mkSet(2, 0x0a, 1, 0x0b, 1, 0x0c, 1, 0x0e, 1)
	if DynBound(byz, low, low) || staticOK(byz, low) || !staticOK(byz, v0) {
		t.Fatal("static threshold condition")
	}
	w := dynWitness()
	if w.Class() != "dyn-unbounded" {
		t.Fatal("witness class")
	}
	if c, _ := CheckSafety(w); c == "" {
		t.Fatal("the recorded witness must finalize conflicting blocks on the real module")
	}
}
