package liskbft

// Demonstration for fixes/C02-bft-weight-overflow.patch (property C02, LIP-0058 BFT parameters).
// Copy this file to pkg/consensus/liskbft/ and run
//
//	go test -vet=off -count=1 -run 'TestC02BFTWeightOverflow' ./pkg/consensus/liskbft/
//
// Unpatched tree: both tests FAIL (stored prevote threshold 1 for aggregate weight 2^63; a validator
// set whose aggregate weight 2^64+3 wraps to 3 is accepted with thresholds 2). Patched tree: PASS.

import (
	"testing"

	"github.com/LiskHQ/lisk-engine/pkg/blockchain"
	"github.com/LiskHQ/lisk-engine/pkg/db"
	"github.com/LiskHQ/lisk-engine/pkg/db/diffdb"
)

func c02DemoStore(t *testing.T) (*Module, *diffdb.Database) {
	t.Helper()
	database, err := db.NewInMemoryDB()
	if err != nil {
		t.Fatal(err)
	}
	t.Cleanup(func() { database.Close() })
	m := NewModule()
	if err := m.Init(4); err != nil {
		t.Fatal(err)
	}
	store := diffdb.New(database, blockchain.DBPrefixToBytes(blockchain.DBPrefixState))
	if err := m.InitGenesisState((&blockchain.BlockHeader{Height: 0}).Readonly(), store); err != nil {
		t.Fatal(err)
	}
	return m, store
}

// One validator of weight 2^63: floor(2w/3)+1 = 6148914691236517206, but aggregateBFTWeight*2 wraps
// to 0 in uint64 and the stored prevote threshold is 1.
func TestC02BFTWeightOverflowPrevoteThreshold(t *testing.T) {
	m, store := c02DemoStore(t)
	w := uint64(1) << 63
	threshold := w/3 + 1
	vals := BFTValidators{NewValidator([]byte{0x01}, w, []byte{})}
	if err := m.API().SetBFTParameters(store, threshold, threshold, vals); err != nil {
		t.Fatalf("SetBFTParameters rejected a valid parameter set: %v", err)
	}
	params, err := m.API().GetBFTParameters(store, 1)
	if err != nil {
		t.Fatal(err)
	}
	want := uint64(6148914691236517206) // floor(2*2^63/3) + 1
	if params.prevoteThreshold != want {
		t.Fatalf("prevote threshold for aggregate BFT weight 2^63: got %d, want %d", params.prevoteThreshold, want)
	}
}

// Two validators of weight 2^63 and 2^63+3: the aggregate weight 2^64+3 does not fit into uint64. The
// running sum wraps to 3, so thresholds 2 (= 3/3+1) pass the guards although they are far below one
// third of the real aggregate weight.
func TestC02BFTWeightOverflowAggregateWeight(t *testing.T) {
	m, store := c02DemoStore(t)
	w := uint64(1) << 63
	vals := BFTValidators{
		NewValidator([]byte{0x01}, w, []byte{}),
		NewValidator([]byte{0x02}, w+3, []byte{}),
	}
	if err := m.API().SetBFTParameters(store, 2, 2, vals); err == nil {
		params, _ := m.API().GetBFTParameters(store, 1)
		t.Fatalf("SetBFTParameters accepted BFT weights whose sum overflows uint64 (thresholds %d/%d/%d)",
			params.prevoteThreshold, params.precommitThreshold, params.certificateThreshold)
	}
	// the largest aggregate weight that fits is still accepted
	m2, store2 := c02DemoStore(t)
	max := ^uint64(0)
	vals2 := BFTValidators{
		NewValidator([]byte{0x01}, w, []byte{}),
		NewValidator([]byte{0x02}, w-1, []byte{}),
	}
	if err := m2.API().SetBFTParameters(store2, max/3+1, max, vals2); err != nil {
		t.Fatalf("SetBFTParameters rejected aggregate weight 2^64-1: %v", err)
	}
	params, err := m2.API().GetBFTParameters(store2, 1)
	if err != nil {
		t.Fatal(err)
	}
	if want := uint64(12297829382473034411); params.prevoteThreshold != want { // floor(2*(2^64-1)/3) + 1
		t.Fatalf("prevote threshold for aggregate BFT weight 2^64-1: got %d, want %d", params.prevoteThreshold, want)
	}
}
