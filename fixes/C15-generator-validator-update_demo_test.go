//go:build verif

package c15

// Demonstration for fixes/C15-generator-validator-update.patch (property C15: every block the
// generator produces is accepted by the same node).
//
// The REAL Generator.forge runs on the node harness (rig.go); the application stand-in answers
// InsertAssets with the script asset that makes it answer AfterTransactionsExecute of this block
// with new BFT weights 3-1-1-1 and thresholds 5 (what a PoS module does at the end of a round).
// The forged block is then given to the REAL Executer.process of the same node.
//
// Copy this file to /verif/harness/c15/ (or a private copy of the harness) and run, in the harness
// directory, with the `replace github.com/LiskHQ/lisk-engine => …` line of go.mod pointing at the
// tree to test:
//
//	GOFLAGS=-mod=mod GOPROXY=off GOSUMDB=off go test -tags verif -count=1 -run TestC15ForgeValidatorChange -v ./c15/
//
// Unpatched tree: FAIL
//	forged block at height 1 not applied: invalid validatorsHash. Expected c0793b1e… but received e0538195…
// (generator/abi_caller.go AfterTransactionsExecute drops NextValidators / PreCommitThreshold /
// CertificateThreshold, so sealBlock hashes the OLD parameters of height+1, while
// consensus/abi_caller.go Execute applies the change before processValidated compares the hash).
// Patched tree: PASS (validatorsHash = hash of the changed parameters; the block is applied; the
// node's parameters of height 2 are the changed ones).
//
// The same input for the correspondence harness (fires `c15-forged-block-rejected` and
// `c15-header-differs:validatorsHash` on the unpatched tree, silent on the patched one):
//
//	echo '{"ops":["reset chain nv=4 own=2 seed=7 maxsize=15360","forge 0 - vc=3-1-1-1/5/5"]}' > /tmp/c15vc.json
//	vh C15 --tier quick --seed 1 --ldriver <lean>/.lake/build/bin/ldriver --replay /tmp/c15vc.json --out /tmp/rep.json

import (
	"bytes"
	"testing"

	"github.com/LiskHQ/lisk-engine/pkg/blockchain"
	"github.com/LiskHQ/lisk-engine/pkg/labi"

	"verifharness/node"
)

func TestC15ForgeValidatorChange(t *testing.T) {
	r, err := newRig(rigConfig{node: node.Config{NumValidators: 4, Seed: 7}, own: 4, maxSize: 15360})
	if err != nil {
		t.Fatal(err)
	}
	defer r.Close()

	// the validator of the first slot after genesis forges
	var v *node.Validator
	var ts uint32
	for _, c := range r.own {
		if x, ok := r.slotTimeFor(c, 3); ok && (v == nil || x < ts) {
			v, ts = c, x
		}
	}

	// the application's answer for this block: weights 3-1-1-1, thresholds 5
	var next []*labi.Validator
	for i, c := range r.n.Validators[:4] {
		w := uint64(1)
		if i == 0 {
			w = 3
		}
		next = append(next, c.Labi(w))
	}
	vc := &node.ValidatorChange{Validators: next, PrecommitThreshold: 5, CertificateThreshold: 5}
	opts := node.BlockOpts{Generator: v, ValidatorChange: vc}
	asset, err := opts.ScriptAsset()
	if err != nil || asset == nil {
		t.Fatalf("script asset: %v", err)
	}
	r.abi.setInsertAssets([]*blockchain.BlockAsset{asset})

	fr, err := r.forgeAt(ts, v, nil, nil)
	if err != nil {
		t.Fatalf("forge: %v (log %v)", err, fr.logs)
	}
	want, err := node.ValidatorsHashOf(next, 5)
	if err != nil {
		t.Fatal(err)
	}
	if !bytes.Equal(fr.block.Header.ValidatorsHash, want) {
		t.Errorf("forged validatorsHash %x, the parameters valid from height 2 hash to %x", []byte(fr.block.Header.ValidatorsHash), want)
	}
	res := r.n.ProcessResult(fr.block)
	if !res.Applied {
		t.Fatalf("forged block at height %d not applied: %v", fr.block.Header.Height, res.Err)
	}
	params, err := r.n.BFT().API().GetBFTParameters(r.n.Store(), 2)
	if err != nil {
		t.Fatal(err)
	}
	if !bytes.Equal(params.ValidatorsHash(), want) || params.CertificateThreshold() != 5 {
		t.Errorf("parameters of height 2 after the block are not the changed ones")
	}
}
