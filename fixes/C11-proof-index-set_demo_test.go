package rmt

import (
	"bytes"
	"fmt"
	"testing"

	"github.com/LiskHQ/lisk-engine/pkg/db"
)

func demoTree(t *testing.T, n int) (*RegularMerkleTree, [][]byte) {
	store, _ := db.NewInMemoryDB()
	tree := NewRegularMerkleTree(store)
	data := [][]byte{}
	for i := 0; i < n; i++ {
		d := []byte{byte(0xa0 + i)}
		data = append(data, d)
		if err := tree.Append(d); err != nil {
			t.Fatal(err)
		}
	}
	return tree, data
}

// (1) duplicated index, last-wins pairing of query hashes with Idxs.
func TestDemoDuplicateIndex(t *testing.T) {
	tree, data := demoTree(t, 5)
	real := leafHash(data[1])
	fake := leafHash([]byte("not a leaf of this tree"))
	proof, err := tree.GenerateProof([][]byte{real})
	if err != nil {
		t.Fatal(err)
	}
	fmt.Printf("proof size=%d idxs=%v nsib=%d\n", proof.Size, proof.Idxs, len(proof.SiblingHashes))
	fmt.Println("honest verify:", VerifyProof([][]byte{real}, proof, tree.Root()))
	fmt.Println("fake alone   :", VerifyProof([][]byte{fake}, proof, tree.Root()))
	dup := &Proof{Size: proof.Size, Idxs: []uint64{proof.Idxs[0], proof.Idxs[0]}, SiblingHashes: proof.SiblingHashes}
	got := VerifyProof([][]byte{fake, real}, dup, tree.Root())
	fmt.Println("dup [fake,real] idxs", dup.Idxs, "verify:", got)
	fmt.Println("dup [real,fake] verify:", VerifyProof([][]byte{real, fake}, dup, tree.Root()))
	// tree-generated proof for the same leaf queried twice
	p2, err := tree.GenerateProof([][]byte{real, real})
	fmt.Printf("generated twice: idxs=%v nsib=%d err=%v verify=%v\n", p2.Idxs, len(p2.SiblingHashes), err,
		VerifyProof([][]byte{real, real}, p2, tree.Root()))
	// update through the duplicated proof: which value wins
	r1, err := CalculateRootFromUpdateData([][]byte{{1}, {2}}, dup)
	want2 := CalculateRoot([][]byte{data[0], {2}, data[2], data[3], data[4]})
	want1 := CalculateRoot([][]byte{data[0], {1}, data[2], data[3], data[4]})
	fmt.Printf("CalculateRootFromUpdateData dup: err=%v ==root(leaf1:=02)=%v ==root(leaf1:=01)=%v\n", err, bytes.Equal(r1, want2), bytes.Equal(r1, want1))
	if got {
		t.Errorf("VerifyProof accepted the claim (index %d, fake hash)", dup.Idxs[0])
	}
}

// ancestor overlap through a pass-through node: leaf 4 of 5 leaves is index 20, its pass-through parent 10.
func TestDemoPassThroughOverlap(t *testing.T) {
	tree, data := demoTree(t, 5)
	real := leafHash(data[4])
	fake := leafHash([]byte("not a leaf of this tree"))
	proof, _ := tree.GenerateProof([][]byte{real})
	fmt.Printf("proof idxs=%v nsib=%d\n", proof.Idxs, len(proof.SiblingHashes))
	p := &Proof{Size: 5, Idxs: []uint64{20, 10}, SiblingHashes: proof.SiblingHashes}
	got := VerifyProof([][]byte{fake, real}, p, tree.Root())
	fmt.Println("idxs [20,10] hashes [fake,real] verify:", got)
	p = &Proof{Size: 5, Idxs: []uint64{10}, SiblingHashes: proof.SiblingHashes}
	fmt.Println("idxs [10] hashes [real] verify:", VerifyProof([][]byte{real}, p, tree.Root()))
	if got {
		t.Errorf("VerifyProof accepted the claim (index 20, fake hash)")
	}
}

// (2) leaf-layer index beyond the size.
func TestDemoUpdateOutOfRange(t *testing.T) {
	tree, data := demoTree(t, 5)
	before := tree.Root()
	x := []byte{0xee}
	err := tree.Update([]uint64{21}, [][]byte{x})
	phantom := CalculateRoot(append(append([][]byte{}, data...), x))
	fmt.Printf("Update([21]) on 5 leaves: err=%v size=%d rootChanged=%v root==root(6-list)=%v\n", err, tree.Size(),
		!bytes.Equal(before, tree.Root()), bytes.Equal(tree.Root(), phantom))
	sibs := [][]byte{leafHash(data[4]), CalculateRoot(data[:4])}
	r, err2 := CalculateRootFromUpdateData([][]byte{x}, &Proof{Size: 5, Idxs: []uint64{21}, SiblingHashes: sibs})
	fmt.Printf("CalculateRootFromUpdateData idx 21 size 5: err=%v root==root(6-list)=%v\n", err2, bytes.Equal(r, phantom))
	if err == nil {
		t.Errorf("Update accepted index 21 in a 5-leaf tree")
	}
	if err2 == nil {
		t.Errorf("CalculateRootFromUpdateData accepted index 21 with size 5")
	}
}

// (1b) duplicated index whose sibling is not consumed from the sibling hashes.
func TestDemoDuplicateIndexVariants(t *testing.T) {
	tree, data := demoTree(t, 5)
	fake := leafHash([]byte("not a leaf of this tree"))
	l0, l1, l4 := leafHash(data[0]), leafHash(data[1]), leafHash(data[4])
	// lone last leaf (index 20): no sibling on its way up to layer 2
	p4, _ := tree.GenerateProof([][]byte{l4})
	dup := &Proof{Size: 5, Idxs: []uint64{20, 20}, SiblingHashes: p4.SiblingHashes}
	a := VerifyProof([][]byte{fake, l4}, dup, tree.Root())
	fmt.Println("size 5 idxs [20,20] hashes [fake,l4] verify:", a, " [l4,fake]:", VerifyProof([][]byte{l4, fake}, dup, tree.Root()))
	g, err := tree.GenerateProof([][]byte{l4, l4})
	fmt.Printf("generated for [l4,l4]: idxs=%v err=%v verify=%v\n", g.Idxs, err, VerifyProof([][]byte{l4, l4}, g, tree.Root()))
	// sibling also queried
	p01, _ := tree.GenerateProof([][]byte{l1, l0})
	fmt.Printf("proof [l1,l0]: idxs=%v nsib=%d verify=%v\n", p01.Idxs, len(p01.SiblingHashes), VerifyProof([][]byte{l1, l0}, p01, tree.Root()))
	dup2 := &Proof{Size: 5, Idxs: []uint64{17, 17, 16}, SiblingHashes: p01.SiblingHashes}
	b := VerifyProof([][]byte{fake, l1, l0}, dup2, tree.Root())
	fmt.Println("size 5 idxs [17,17,16] hashes [fake,l1,l0] verify:", b)
	// update through such a proof: which value is written
	r, err := CalculateRootFromUpdateData([][]byte{{1}, {2}}, dup)
	fmt.Printf("CalculateRootFromUpdateData idxs [20,20] data [01,02]: err=%v ==root(leaf4:=02)=%v ==root(leaf4:=01)=%v\n", err,
		bytes.Equal(r, CalculateRoot([][]byte{data[0], data[1], data[2], data[3], {2}})),
		bytes.Equal(r, CalculateRoot([][]byte{data[0], data[1], data[2], data[3], {1}})))
	err = tree.Update([]uint64{20, 20}, [][]byte{{1}, {2}})
	fmt.Printf("Update idxs [20,20] data [01,02]: err=%v ==root(leaf4:=02)=%v\n", err,
		bytes.Equal(tree.Root(), CalculateRoot([][]byte{data[0], data[1], data[2], data[3], {2}})))
	if a || b {
		t.Errorf("VerifyProof accepted a fake claim through a duplicated index")
	}
}

// (2b) a position outside the tree whose hash is never combined with anything: the claim is ignored.
func TestDemoVerifyOutOfTreeIgnored(t *testing.T) {
	tree, data := demoTree(t, 3)
	fake := leafHash([]byte("not a leaf of this tree"))
	l0, l2 := leafHash(data[0]), leafHash(data[2])
	p, _ := tree.GenerateProof([][]byte{l2, l0})
	fmt.Printf("proof [l2,l0]: idxs=%v nsib=%d\n", p.Idxs, len(p.SiblingHashes))
	// index 12 = leaf-layer position 4 of a tree of 3 leaves (height 3); index 1 and 3 name nothing
	for _, extra := range []uint64{12, 15, 1, 3} {
		c := &Proof{Size: 3, Idxs: []uint64{p.Idxs[0], p.Idxs[1], extra}, SiblingHashes: p.SiblingHashes}
		got := VerifyProof([][]byte{l2, l0, fake}, c, tree.Root())
		fmt.Printf("size 3 idxs %v hashes [l2,l0,fake] verify: %v\n", c.Idxs, got)
		if got {
			t.Errorf("VerifyProof accepted a claim for index %d, which is no node of a tree of 3 leaves", extra)
		}
	}
}
