"""Per-property configuration used by bin/vcheck and bin/mkmanifest."""

COMMON_TB = [
    "pebble: iterators return keys in byte order; a Write of one batch is atomic (trusted, not modelled)",
]

FNGEN = ["tools/fngen/run.sh"]

SCHEMAGEN = ["tools/schemagen/run.sh"]

BFT_TB = ["uint64 weight sums are modelled without overflow (total weight < 2^64); heights < 2^32"]

PROPS = {
    "C01": {
        "title": "Finality safety: no two conflicting blocks are ever both finalized",
        "level": "proof",
        "generators": FNGEN,
        "technique": "Lean 4: transcription of liskbft proved/evaluated in the kernel (counterexample theorems; safety lemmas) + differential correspondence with the real module on fork trees + model-free pairwise finalized-prefix oracle",
        "design_ref": "DESIGN.md §6 C01",
        "level_text": "The Lean transcription of liskbft (Model/BFT.lean) is compared with the real module after every header of every explored branch (full vote-store dump). Lean proves by kernel evaluation that the protocol as implemented finalizes conflicting blocks when precommitThreshold is at the lower bound SetBFTParameters accepts (known finding, replayed on the real module on every run), and the safety lemmas / partial safety theorem for thresholds with byz + W < tau_pc + tau_pv (Props/C01_Safety.lean, when present). The model-free oracle processes every branch of generated fork trees (honest validators never self-contradict, Byzantine weight < 1/3, chain-valid blocks only) through real nodes and requires pairwise compatible finalized prefixes.",
        "level_note": "Partial: the property as stated is false for low precommit thresholds (recorded known finding, protocol level); validator-set changes inside the tree are not covered by the theorem; signatures are abstracted (a header 'by v' is signed by v). Trusted: Lean kernel, harness and simulator.",
        "rule": "fork trees of 3-43 blocks, 3-7 validators, random weights, Byzantine set < 1/3 weight, standard and low precommit thresholds; each branch replayed on a real liskbft node; non-trivial = a branch on which finality advanced; distinct = distinct branch op sequences",
        "trusted_base": BFT_TB,
        "assumptions": ["static BFT parameters inside one tree"],
        "timeout": {"quick": 900, "thorough": 10800},
    },
    "C02": {
        "title": "BFT heights are a deterministic function of the header chain (LIP-0058)",
        "level": "proof",
        "generators": FNGEN,
        "technique": "Lean 4 theorems about a line-by-line transcription of liskbft + differential correspondence (full vote-store dump after every header) with the real module",
        "design_ref": "DESIGN.md §6 C02",
        "level_text": "Model/BFT.lean transcribes insertBlockBFTInfo, getHeightNotPrevoted, updatePrevotesPrecommits, updateMaxHeight*, parameter lookup/pruning, SetBFTParameters, SetGeneratorKeys, contradicting, ImpliesMaximalPrevotes. Lean proves determinism/compositionality and the invariants in Props/C02_Inv.lean (window bound and shape, weight and height monotonicity, when present). The correspondence runs generated chains (honest and lying generators, validators joining/leaving, weight and threshold changes, aggregate commits triggering pruning, batch sizes 1-12, chains several windows long) through the real module over diffdb/pebble and the compiled model and diffs the complete BFT store after every operation; a second independently built node checks determinism of the implementation.",
        "level_note": "Trusted: Lean kernel, harness, verif-tagged dump hook in pkg/consensus/liskbft. The LIP-0058 rules are those transcribed in the model (no LIP text offline).",
        "rule": "random chains of up to 60 (240 for every 20th) blocks with parameter changes; non-trivial = finality advanced beyond genesis and/or parameters changed after blocks; distinct = distinct op sequences",
        "trusted_base": BFT_TB,
        "assumptions": [],
        "timeout": {"quick": 900, "thorough": 10800},
    },
    "C08": {
        "title": "Codec: lossless round trip, canonical strict decoding, stable IDs",
        "level": "proof",
        "generators": SCHEMAGEN,
        "technique": "Lean 4 proofs about a codec interpreter over a schema table regenerated from the *_codec.go files (go/ast translator schemagen) + differential correspondence model vs all 95 real generated codecs",
        "design_ref": "DESIGN.md §6 C08",
        "level_text": "Lean proves for all 64-bit values: varint round trip, canonical (shortest, non-overflowing) form is the only accepted one, injectivity, zig-zag round trip; and re-proves on every run that the schema table regenerated from the current *_codec.go files is well formed (numbers increasing, Encode/Decode/DecodeStrict agree on numbers and kinds, strict flags, no unknown construct). The generic interpreter (Encode / Decode / DecodeStrict incl. nested readers with unchecked end, int64 wrap-around, uint32 truncation, UTF-8) and the Lisk32 functions are tied to the real code by running every registered struct's real Decode / DecodeStrict / Encode and the compiled Lean model on generated valid encodings and structure-aware mutations and diffing verdict (error kind) and re-encoded bytes; model-free oracles check exact round trip of fully populated encodings, strict acceptance of own encodings, canonicity of strictly accepted transactions, transaction-ID = hash of accepted bytes, Lisk32 round trip and single-substitution rejection.",
        "level_note": "Trusted: Lean kernel; schemagen (tools/schemagen) and the verif-tagged codec registry; the harness generators. NFC normalisation is a parameter of the model (generated strings are ASCII or invalid UTF-8, where it is exact). Message-level round-trip / canonicity theorems for the generic interpreter and the Lisk32 checksum theorem are in progress (see DESIGN.md); until then those clauses rest on the correspondence + oracles.",
        "rule": "per schema (95 structs): canonical encodings of random values (boundary varints, nested messages to depth 6, 2-byte length prefixes) and 1-2 structure-aware mutations (truncate, bit flip, non-shortest varint, trailing byte, 0x02, huge varint, rotate, delete, dup suffix, high bit), each through lenient and strict decode + re-encode; Lisk32: random/edge 20-byte inputs, mutated texts; non-trivial = a schema batch with successful decodes and at least one error kind; distinct = distinct op sequences",
        "trusted_base": ["tools/schemagen translator", "NFC (x/text/unicode/norm) is a parameter of the model"],
        "assumptions": ["strings in generated inputs are ASCII or invalid UTF-8"],
    },
    "C07": {
        "title": "Header contradiction and fork-choice classification follow LIP-0014",
        "level": "proof",
        "generators": FNGEN,
        "technique": "Lean 4 proofs over definitions regenerated from the Go source (go/ast translator fngen) + differential run of generated definitions vs real functions",
        "design_ref": "DESIGN.md §6 C07",
        "level_text": "AreDistinctHeadersContradicting, IsDifferentChain, the five forkChoice predicates, HeaderHasPriority and the predicate order of Executer.process are translated from the current source into Lean on every run; Lean proves for ALL headers (unbounded Nat fields): symmetry, different generators never contradict, non-contradiction <-> one header is a legitimate successor of the other, the three causes, honest generators (incl. forging lower after a switch to a better shorter chain) are never flagged, first-match window detection is complete on a chain, classification = LIP-0014 lexicographic order on (maxHeightPrevoted,height). A code change alters the generated definition and the proofs are re-run against it.",
        "level_note": "Trusted: Lean kernel; the fngen translator (tools/fngen, ~300 lines; unsupported syntax is an error) - backed on every run by a differential test real function vs generated definition (exhaustive over small fields for header pairs, random over uint32); uint32 fields modelled as Nat (only comparisons and +1 mod 2^32 occur). Wall-clock dependent helpers of forkChoice are opaque inputs of the model.",
        "rule": "exhaustive header pairs with fields in 0..3 (0..4 thorough) x 2 generators + random uint32 incl. boundary values for contradiction / IsDifferentChain / HeaderHasPriority / forkChoice classification; non-trivial = a batch exercising at least two distinct (op,result) kinds",
        "trusted_base": ["tools/fngen translator (checked differentially on every run)"],
        "assumptions": ["forkChoice wall-clock helpers are driven with slot-centred timestamps (blockTime 100000 s) so results do not depend on the second the check runs"],
    },
    "C14": {
        "title": "Transaction pool keeps its indexes consistent, bounded and live",
        "level": "proof",
        "technique": "Lean 4: sequential model of pkg/txpool, invariant proved for init and preserved by add/remove/reorg/block-applied/-reverted for all histories, verifier answers, tie-breaks and limits >= 1; lock discipline as a data table checked by decide; differential correspondence with the real pool (scripted ABI/connection, verif snapshot after every op, watchdog on every call) + model-free invariant oracle + concurrent stress",
        "design_ref": "DESIGN.md §6 C14",
        "level_text": "Lean theorems: C14Inv (indexes agree, one list per sender, nonce-unique lists, fee queue = pooled set, |all| <= max, per sender <= maxPerAccount, processables strictly ascending gap-free and pooled) holds after every op sequence; replacement evicts the old tx from all three indexes and needs the fee increase; only reorg promotes and only txs not answered invalid; no nil-list panic; no re-entrant lock / lock-order violation in the lock table of the fixed source, and the table of the original source fails the same check. Every generated history is run on the real pool and on the compiled model and the canonical dump of the three indexes is diffed after each op; a Go oracle checks the invariant clauses and the returns-within-watchdog clause without the model; thorough adds 600 concurrent rounds.",
        "level_note": "Trusted: Lean kernel, harness, hand-written model and hand-extracted lock table (fixedTable). Real concurrency is covered by the lock-discipline theorem plus stress, not by a linearizability proof. Ties between eviction candidates (Go map order) are a model parameter; the harness truncates such cases after the eviction. Known finding C14-pending-tx-processable (pending verdict treated as ok).",
        "rule": "histories of 5-120 ops: add (fresh slot / resend / replacement below, at, above the fee rule, fees near 2^64), remove, reorg with scripted invalid/pending answers, applied, reverted; limits from 1; families random/capacity/persender/promotion/large/fee-overflow + regressions; non-trivial = a case exercising eviction, replacement, promotion, invalid drop, full-pool rejection or revert; distinct = distinct op sequences",
        "trusted_base": ["lock table fixedTable hand-extracted from pkg/txpool/txpool.go, txlist.go", "uint64 arithmetic modelled in Nat (no overflow reachable after the replacement-fee fix)"],
        "assumptions": ["MaxTransactions >= 1 and MaxTransactionsPerAccount >= 1", "transactions are Init-ed (size >= 1), as every caller in the repository does", "transaction ids are collision-free"],
    },
    "C18": {
        "title": "Peer penalties accumulate into bans that are enforced and expire",
        "level": "proof",
        "technique": "Lean 4 proofs (refinement of a per-IP epoch specification and invariants by induction over arbitrary op/event lists) + differential correspondence model vs the real connectionGater / Peer.addPenalty / rateLimit / onRequest / onResponse / ApplyPenalty driven in-process under a virtual clock + model-free per-IP bookkeeping oracle + two real libp2p hosts on loopback + wall-clock expiry scenarios",
        "design_ref": "DESIGN.md §6 C18",
        "level_text": "Lean proves for ALL sequences of penalties (any amount/sign, any address), expiry passes at any time and block/unblock/blacklist operations: the table entry of every IP is exactly the one implied by its epoch (penalties since its last expiry); banned iff some chronological prefix of the epoch sums to >= 100; every gate sequence (inbound and outbound) refuses exactly the banned or blacklisted IPs; a ban holds through all operations in [tb, tb+E], and the first pass after expiry removes the entry (allowed again, clean score); penalties are per IP. For the rate limiter / message protocol: well-formed traffic within the per-interval limits never changes the gater, closes no connection and reaches the handler; the message exceeding the limit adds the penalty and resets the counter; malformed envelopes and unknown procedures ban the IP and disconnect the peer. The model is tied to pkg/p2p by running generated op sequences (IPv4/IPv6/IPv4-mapped/zone/relay/no-IP multiaddrs, several peers behind one IP, blacklist configurations, traffic bursts around the limits, sweeps at expiry-1/expiry/expiry+1) on the real code and the compiled model and diffing every output; a Go reference (score sums per IP, message counts per interval) checks the property clauses after every op without the model.",
        "level_note": "Trusted: Lean kernel, harness, verif hooks in pkg/p2p/export_verif.go (stub libp2p host; clock translation = affine shift of stored expirations around each clock-reading op; SweepOnce/RLTick run the package's own expiry / reset loops for one pass). libp2p consulting the gates in the modelled order is checked only by the loopback scenarios. Go int overflow of scores not modelled. Invalid sync requests are covered from Connection.BanPeer downwards only.",
        "rule": "quick 4000 / thorough 150000 op sequences (tags random, expiry, rate, shared-ip, blacklist, invalid); non-trivial = a case with a ban, refusal, disconnect, rate penalty, connection-level ban, sweep after a ban or blacklist; distinct = distinct op sequences; Extra: 6 loopback scenarios (both tiers), 64 wall-clock expiry scenarios (thorough)",
        "trusted_base": ["pkg/p2p/export_verif.go stub host and clock translation", "libp2p calls InterceptPeerDial/AddrDial/Secured/Upgraded (outbound) and Accept/Secured/Upgraded (inbound)", "net.IP.String() injective modulo IPv4-mapped IPv6"],
        "assumptions": ["the expiry loop ticks at least every intervalCheck (a ban lasts until the first pass after expiration)", "scores stay within Go int range"],
    },
    "C12": {
        "title": "Staged state store reads equal the database with staged writes applied",
        "level": "proof",
        "technique": "Lean 4 proof (refinement of an overlay-map spec, invariants by induction over op sequences) + differential correspondence model vs real diffdb/pebble",
        "design_ref": "DESIGN.md §6 C12",
        "level_text": "Lean theorems: every read of the diffdb model (get/has/range/iterate, both directions, any limit, any prefix view) equals the read on store+staged writes; cache invariant; snapshot/restore exact; commit writes the effective map and revertDiff restores the previous store; DB scans exact. The model is tied to pkg/db/diffdb and pkg/db by running generated op sequences on the real code (in-memory pebble) and on the compiled Lean model and diffing every output, plus a Go sorted-map oracle that needs no model.",
        "level_note": "Trusted: Lean kernel, the harness and its generators, pebble's iterator order and batch atomicity. The model is hand-written; views are created per operation and snapshots taken on the root (as pkg/statemachine does). DB-level scans with limit 0 are not claimed.",
        "rule": "random op sequences (1-14 ops + commit/revert) over 3-letter key alphabet, 5 view prefixes, 3 root prefixes; non-trivial = a range/iterate returning data after a staged set/del, a non-empty commit, or a successful restore; distinct = distinct op sequences",
        "trusted_base": COMMON_TB,
        "assumptions": ["prefix views are created per operation from the root; snapshots are taken and restored on the root database"],
    },
}
