"""Per-property configuration used by bin/vcheck and bin/mkmanifest."""

COMMON_TB = [
    "pebble: iterators return keys in byte order; a Write of one batch is atomic (trusted, not modelled)",
]

PROPS = {
    "C12": {
        "title": "Staged state store reads equal the database with staged writes applied",
        "level": "proof",
        "technique": "Lean 4 proof (refinement of an overlay-map spec, invariants by induction over op sequences) + differential correspondence model vs real diffdb/pebble",
        "design_ref": "DESIGN.md §6 C12",
        "level_text": "Lean theorems: every read of the diffdb model (get/has/range/iterate, both directions, any limit, any prefix view) equals the read on store+staged writes; cache invariant; snapshot/restore exact; commit writes the effective map and revertDiff restores the previous store; DB scans exact. The model is tied to pkg/db/diffdb and pkg/db by running generated op sequences on the real code (in-memory pebble) and on the compiled Lean model and diffing every output, plus a Go sorted-map oracle that needs no model.",
        "level_note": "Trusted: Lean kernel, the harness and its generators, pebble's iterator order and batch atomicity. The model is hand-written; views are created per operation and snapshots taken on the root (as pkg/statemachine does). DB-level scans with limit 0 are not claimed.",
        "rule": "random op sequences (1-14 ops + commit/revert) over 3-letter key alphabet, 5 view prefixes, 3 root prefixes; non-trivial = a range/iterate returning data after a staged set/del, a non-empty commit, or a successful restore; distinct = distinct op sequences",
        "trusted_base": COMMON_TB,
        "assumptions": ["prefix views are created per operation from the root; snapshots are taken and restored on the root database"],
    },
}
